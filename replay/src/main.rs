//! Replays verifier witnesses against the real library through its public API.
//! usage: vreplay <family> <args...>   -> prints one JSON-ish line `REPLAY ...`
//! exit 0 = behaviour agrees with the property, 1 = property violated (observed), 2 = usage
use msi::{Column, Expr, Insert, Package, PackageType, Select, Value};
use std::io::Cursor;
use std::panic;

fn val(s: &str) -> Value {
    if s == "null" {
        Value::Null
    } else if let Some(rest) = s.strip_prefix("s:") {
        Value::Str(rest.to_string())
    } else {
        Value::Int(s.parse::<i32>().expect("int"))
    }
}

fn lit(v: &Value) -> Expr {
    match v {
        Value::Null => Expr::null(),
        Value::Int(n) => Expr::integer(*n),
        Value::Str(s) => Expr::string(s.as_str()),
    }
}

fn binop(op: &str, a: Expr, b: Expr) -> Expr {
    match op {
        "Eq" => a.eq(b),
        "Ne" => a.ne(b),
        "Lt" => a.lt(b),
        "Le" => a.le(b),
        "Gt" => a.gt(b),
        "Ge" => a.ge(b),
        "Add" => a + b,
        "Sub" => a - b,
        "Mul" => a * b,
        "Div" => a / b,
        "BitAnd" => a & b,
        "BitOr" => a | b,
        "BitXor" => a ^ b,
        "Shl" => a << b,
        "Shr" => a >> b,
        _ => panic!("op"),
    }
}

fn unop(op: &str, a: Expr) -> Expr {
    match op {
        "Neg" => -a,
        "BitNot" => a.bitinv(),
        "BoolNot" => a.not(),
        _ => panic!("op"),
    }
}

/// a one-row table with two nullable columns holding (a, b); returns the row
fn row_with(a: &Value, b: &Value) -> msi::Row {
    let cursor = Cursor::new(Vec::new());
    let mut package = Package::create(PackageType::Installer, cursor).unwrap();
    let col = |name: &str, v: &Value| match v {
        Value::Str(_) => Column::build(name).nullable().string(0),
        _ => Column::build(name).nullable().int32(),
    };
    let columns = vec![Column::build("K").primary_key().int16(), col("A", a), col("B", b)];
    package.create_table("T", columns).unwrap();
    package
        .insert_rows(Insert::into("T").row(vec![Value::Int(1), a.clone(), b.clone()]))
        .unwrap();
    let mut rows = package.select_rows(Select::table("T")).unwrap();
    rows.next().unwrap()
}

fn show(v: &Value) -> String {
    match v {
        Value::Null => "null".into(),
        Value::Int(n) => format!("{n}"),
        Value::Str(s) => format!("s:{s}"),
    }
}

/// C13: `expr <un|bin> <op> <a> [<b>]` — evaluates both the folded (literal)
/// form and the lazy (column) form; any panic, or a disagreement, is a violation.
fn replay_expr(args: &[String]) -> i32 {
    let kind = args[0].as_str();
    let op = args[1].clone();
    let a = val(&args[2]);
    let b = if kind == "bin" { val(&args[3]) } else { Value::Null };
    panic::set_hook(Box::new(|_| {}));
    let (a1, b1, op1) = (a.clone(), b.clone(), op.clone());
    let folded = panic::catch_unwind(move || {
        let e = if kind_is_bin(&op1, &b1) { binop(&op1, lit(&a1), lit(&b1)) } else { unop(&op1, lit(&a1)) };
        let row = row_with(&a1, &b1);
        e.eval(&row)
    });
    let (a2, b2, op2) = (a.clone(), b.clone(), op.clone());
    let lazy = panic::catch_unwind(move || {
        let e = if kind_is_bin(&op2, &b2) { binop(&op2, Expr::col("A"), Expr::col("B")) } else { unop(&op2, Expr::col("A")) };
        let row = row_with(&a2, &b2);
        e.eval(&row)
    });
    let f = folded.as_ref().map(show).unwrap_or_else(|_| "PANIC".into());
    let l = lazy.as_ref().map(show).unwrap_or_else(|_| "PANIC".into());
    let bad = folded.is_err() || lazy.is_err() || f != l;
    println!("REPLAY family=expr kind={kind} op={op} a={} b={} folded={f} lazy={l} verdict={}", show(&a), show(&b), if bad { "VIOLATED" } else { "ok" });
    if bad { 1 } else { 0 }
}

fn kind_is_bin(op: &str, _b: &Value) -> bool {
    !matches!(op, "Neg" | "BitNot" | "BoolNot")
}

/// C14: `codepage <id>` — encodes sample strings with the library's code page and
/// with the encoding_rs table the identifier's documented name designates.
fn replay_codepage(args: &[String]) -> i32 {
    let id: i32 = args[0].parse().expect("id");
    let cp = match msi::CodePage::from_id(id) {
        Some(cp) => cp,
        None => {
            println!("REPLAY family=codepage id={id} verdict=ok (not a supported id)");
            return 0;
        }
    };
    let want: &'static encoding_rs::Encoding = match cp.id() {
        932 => encoding_rs::SHIFT_JIS,
        936 => encoding_rs::GBK,
        949 => encoding_rs::EUC_KR,
        950 | 951 => encoding_rs::BIG5,
        1250 => encoding_rs::WINDOWS_1250,
        1251 => encoding_rs::WINDOWS_1251,
        1252 | 28591 => encoding_rs::WINDOWS_1252,
        1253 => encoding_rs::WINDOWS_1253,
        1254 => encoding_rs::WINDOWS_1254,
        1255 => encoding_rs::WINDOWS_1255,
        1256 => encoding_rs::WINDOWS_1256,
        1257 => encoding_rs::WINDOWS_1257,
        1258 => encoding_rs::WINDOWS_1258,
        10000 => encoding_rs::MACINTOSH,
        10007 => encoding_rs::X_MAC_CYRILLIC,
        28592 => encoding_rs::ISO_8859_2,
        28593 => encoding_rs::ISO_8859_3,
        28594 => encoding_rs::ISO_8859_4,
        28595 => encoding_rs::ISO_8859_5,
        28596 => encoding_rs::ISO_8859_6,
        28597 => encoding_rs::ISO_8859_7,
        28598 => encoding_rs::ISO_8859_8,
        20127 => {
            println!("REPLAY family=codepage id={id} verdict=ok (US-ASCII has no table)");
            return 0;
        }
        _ => encoding_rs::UTF_8,
    };
    let mut bad = false;
    let mut shown = String::new();
    for sample in ["\u{65e5}\u{672c}\u{8a9e}", "\u{6c49}\u{5b57}", "\u{d55c}\u{ae00}", "\u{e9}\u{20ac}", "\u{416}"] {
        let got = cp.encode(sample);
        let (exp, _, unmappable) = want.encode(sample);
        if unmappable {
            continue; // replacement policy differs ('?' vs numeric reference); only mappable samples compared
        }
        if got != exp.as_ref() {
            bad = true;
            shown = format!("sample={sample:?} library={got:02x?} {}={:02x?}", want.name(), exp.as_ref());
            break;
        }
    }
    println!("REPLAY family=codepage id={id} expected_table={} {shown} verdict={}", want.name(), if bad { "VIOLATED" } else { "ok" });
    if bad { 1 } else { 0 }
}

/// C13: `logic <a> <b>` -- AND / OR / NOT through the public API on a row holding (a, b)
fn replay_logic(args: &[String]) -> i32 {
    let a = val(&args[0]);
    let b = val(&args[1]);
    panic::set_hook(Box::new(|_| {}));
    let truth = |v: &Value| match v { Value::Null => false, Value::Int(n) => *n != 0, Value::Str(s) => !s.is_empty() };
    let (ta, tb) = (truth(&a), truth(&b));
    let (a2, b2) = (a.clone(), b.clone());
    let got = panic::catch_unwind(move || {
        let row = row_with(&a2, &b2);
        (
            Expr::col("A").and(Expr::col("B")).eval(&row),
            Expr::col("A").or(Expr::col("B")).eval(&row),
            Expr::col("A").not().eval(&row),
        )
    });
    let want = (Value::Int((ta && tb) as i32), Value::Int((ta || tb) as i32), Value::Int((!ta) as i32));
    let (bad, shown) = match got {
        Ok(g) => (g != want, format!("and={} or={} not={} expected and={} or={} not={}", show(&g.0), show(&g.1), show(&g.2), show(&want.0), show(&want.1), show(&want.2))),
        Err(_) => (true, "PANIC".to_string()),
    };
    println!("REPLAY family=logic a={} b={} {shown} verdict={}", show(&a), show(&b), if bad { "VIOLATED" } else { "ok" });
    if bad { 1 } else { 0 }
}

/// C17: `lang code <c>` -- code preserved, tag() does not panic, tag -> language -> tag is stable;
///      `lang tag <t> <code>` -- from_tag(t).code() == code;
///      `lang bogus <t> <primary>` -- from_tag(t) has that primary language and its tag is the bare language tag
fn replay_lang(args: &[String]) -> i32 {
    panic::set_hook(Box::new(|_| {}));
    let a: Vec<String> = args.to_vec();
    let r = panic::catch_unwind(move || match a[0].as_str() {
        "code" => {
            let c: u16 = a[1].parse().unwrap();
            let l = msi::Language::from_code(c);
            let t = l.tag().to_string();
            let back = msi::Language::from_tag(&t).tag().to_string();
            (l.code() != c || back != t, format!("code={c} code()={} tag={t} from_tag(tag).tag()={back}", l.code()))
        }
        "tag" => {
            let want: u16 = a[2].parse().unwrap();
            let got = msi::Language::from_tag(&a[1]).code();
            (got != want, format!("from_tag({:?}).code()={got} expected {want}", a[1]))
        }
        _ => {
            let primary: u16 = a[2].parse().unwrap();
            let l = msi::Language::from_tag(&a[1]);
            let bare = a[1].split('-').next().unwrap().to_string();
            (l.code() & 0x3ff != primary || l.tag() != bare, format!("from_tag({:?}) = code {} tag {}; expected primary {primary} and bare tag {bare}", a[1], l.code(), l.tag()))
        }
    });
    let (bad, shown) = r.unwrap_or((true, "PANIC".to_string()));
    println!("REPLAY family=lang {shown} verdict={}", if bad { "VIOLATED" } else { "ok" });
    if bad { 1 } else { 0 }
}

/// C11: `stream <name>` -- write a stream under <name>, list the streams, read it back
fn replay_stream(args: &[String]) -> i32 {
    use std::io::{Read, Write};
    panic::set_hook(Box::new(|_| {}));
    let name = args[0].clone();
    let n2 = name.clone();
    let r = panic::catch_unwind(move || {
        let cursor = Cursor::new(Vec::new());
        let mut package = Package::create(PackageType::Installer, cursor).unwrap();
        match package.write_stream(&n2) {
            Err(e) => return (false, format!("write_stream refused the name: {e}")),
            Ok(mut w) => {
                w.write_all(b"payload").unwrap();
            }
        }
        let listed: Vec<String> = package.streams().collect();
        let mut data = Vec::new();
        let read_ok = match package.read_stream(&n2) {
            Ok(mut rd) => {
                rd.read_to_end(&mut data).unwrap();
                data == b"payload"
            }
            Err(_) => false,
        };
        (listed != vec![n2.clone()] || !read_ok, format!("listed={listed:?} read_back_ok={read_ok}"))
    });
    let (bad, shown) = r.unwrap_or((true, "PANIC".to_string()));
    println!("REPLAY family=stream name={name:?} {shown} verdict={}", if bad { "VIOLATED" } else { "ok" });
    if bad { 1 } else { 0 }
}

/// C14 probe: `encode` -- for a few code pages and string lengths around the 1024-byte internal
/// buffer, the encoding of a string must be the concatenation of the encodings of its
/// characters (and must not panic).  A fixed battery, not a search: used to look for a concrete
/// failing input when the contract of CodePage::encode fails (Verus gives no counterexample).
fn replay_encode(_args: &[String]) -> i32 {
    let pages = [1252, 932, 936, 1251, 28597, 10000];
    let alphabet = ['a', '\u{e9}', '\u{65e5}', '\u{2192}', '\u{416}', '\u{1f600}'];
    for id in pages {
        let cp = msi::CodePage::from_id(id).expect("page");
        for pat in 0..alphabet.len() {
            // mix = 0: the same character throughout (long runs without an unmappable character fill
            // the internal buffer); otherwise every mix-th character is another one
            for (n, mix) in (1000usize..1040).chain(2040..2056).flat_map(|n| [(n, 0usize), (n, 7), (n, 1500)]) {
                let s: String = (0..n).map(|i| if mix != 0 && i % mix == 3 { alphabet[(pat + i) % alphabet.len()] } else { alphabet[pat] }).collect();
                let whole = std::panic::catch_unwind(|| cp.encode(&s));
                let mut parts: Vec<u8> = Vec::new();
                for c in s.chars() {
                    let mut b = [0u8; 4];
                    parts.extend(cp.encode(c.encode_utf8(&mut b)));
                }
                match whole {
                    Err(_) => {
                        println!("REPLAY family=encode page={id} chars={n} first={:?} verdict=VIOLATED (encode panicked)", alphabet[pat]);
                        return 1;
                    }
                    Ok(w) if w != parts => {
                        println!("REPLAY family=encode page={id} chars={n} first={:?} verdict=VIOLATED (encode(s) has {} bytes, the concatenation of its characters' encodings {})", alphabet[pat], w.len(), parts.len());
                        return 1;
                    }
                    _ => {}
                }
            }
        }
    }
    println!("REPLAY family=encode verdict=ok (battery found no failing input)");
    0
}

/// C18 probe: `time` -- a fixed battery of creation times (around 1970, 1601, the last tick,
/// and outside the window) is set, saved, reopened and read back through the public API.
/// Expected (from the statement of C18, computed here in i128 nanoseconds, independent of the
/// library): inside the window the time truncated toward 1970 to 100 ns; outside it the nearest
/// end of the window; never a panic.
fn replay_time(_args: &[String]) -> i32 {
    use std::time::{Duration, SystemTime, UNIX_EPOCH};
    panic::set_hook(Box::new(|_| {}));
    const E_TICKS: i128 = 116_444_736_000_000_000; // 1601 -> 1970 in ticks
    const MAX_TICKS: i128 = u64::MAX as i128;
    let lo_ns: i128 = -E_TICKS * 100;
    let hi_ns: i128 = (MAX_TICKS - E_TICKS) * 100;
    let mut offs: Vec<i128> = vec![0, 1, 99, 100, 101, 999_999_999, 1_000_000_000, 1_234_567_891, -1, -99, -100, -101, -1_000_000_001];
    for base in [lo_ns, hi_ns] {
        for d in [-1_000_000_000i128, -101, -100, -1, 0, 1, 99, 100, 101, 1_000_000_000, 86_400_000_000_000] {
            offs.push(base + d);
        }
    }
    offs.push(hi_ns + 1_000_000_000_000_000_000);
    for ns in offs {
        let t = if ns >= 0 {
            UNIX_EPOCH.checked_add(Duration::new((ns / 1_000_000_000) as u64, (ns % 1_000_000_000) as u32))
        } else {
            let m = -ns;
            UNIX_EPOCH.checked_sub(Duration::new((m / 1_000_000_000) as u64, (m % 1_000_000_000) as u32))
        };
        let t: SystemTime = match t { Some(t) => t, None => continue };
        // expected tick count: truncation toward the Unix epoch, saturating
        let ticks = if ns >= 0 { E_TICKS + ns / 100 } else { E_TICKS - (-ns) / 100 };
        let ticks = ticks.clamp(0, MAX_TICKS);
        let exp_ns = (ticks - E_TICKS) * 100;
        let r = panic::catch_unwind(move || {
            let cursor = Cursor::new(Vec::new());
            let mut package = Package::create(PackageType::Installer, cursor).unwrap();
            package.summary_info_mut().set_creation_time(t);
            let cursor = package.into_inner().unwrap();
            let package = Package::open(cursor).unwrap();
            package.summary_info().creation_time()
        });
        let got = match r {
            Err(_) => {
                println!("REPLAY family=time offset_ns={ns} verdict=VIOLATED (panic while setting / saving / reading the creation time)");
                return 1;
            }
            Ok(None) => {
                println!("REPLAY family=time offset_ns={ns} verdict=VIOLATED (creation time missing after reopen)");
                return 1;
            }
            Ok(Some(g)) => g,
        };
        let got_ns: i128 = match got.duration_since(UNIX_EPOCH) {
            Ok(d) => d.as_nanos() as i128,
            Err(e) => -(e.duration().as_nanos() as i128),
        };
        if got_ns != exp_ns {
            println!("REPLAY family=time offset_ns={ns} read_back_ns={got_ns} expected_ns={exp_ns} verdict=VIOLATED");
            return 1;
        }
    }
    println!("REPLAY family=time verdict=ok (battery found no failing input)");
    0
}

/// C20 probe: `poolcap` -- interning more distinct strings than two-byte references can address
/// must be reported as an error by the public API, never as a panic.
fn replay_poolcap(_args: &[String]) -> i32 {
    use msi::{Column, Insert};
    panic::set_hook(Box::new(|_| {}));
    let r = panic::catch_unwind(|| {
        let cursor = Cursor::new(Vec::new());
        let mut package = Package::create(PackageType::Installer, cursor).unwrap();
        package.create_table("T", vec![Column::build("S").primary_key().string(16)]).unwrap();
        let mut q = Insert::into("T");
        for i in 0..65536 {
            q = q.row(vec![Value::Str(format!("s{i}"))]);
        }
        package.insert_rows(q).map(|_| ()).map_err(|e| e.to_string())
    });
    match r {
        Err(_) => {
            println!("REPLAY family=poolcap rows=65536 distinct strings verdict=VIOLATED (insert_rows PANICKED instead of returning an error)");
            1
        }
        Ok(res) => {
            println!("REPLAY family=poolcap rows=65536 distinct strings result={res:?} verdict=ok (no panic)");
            0
        }
    }
}

/// C20 probe: `rowlimit` -- the reader refuses tables of more than 65536 rows, so the library must
/// not save one: inserting 65537 rows must either be refused or read back after reopening.
fn replay_rowlimit(_args: &[String]) -> i32 {
    use msi::{Column, Insert, Select};
    panic::set_hook(Box::new(|_| {}));
    for n in [65536i32, 65537] {
        let r = panic::catch_unwind(move || {
            let cursor = Cursor::new(Vec::new());
            let mut package = Package::create(PackageType::Installer, cursor).unwrap();
            package.create_table("T", vec![Column::build("K").primary_key().int32()]).unwrap();
            let mut q = Insert::into("T");
            for i in 1..=n {
                q = q.row(vec![Value::Int(i)]);
            }
            let inserted = package.insert_rows(q).is_ok();
            let cursor = package.into_inner().unwrap();
            let mut package = match Package::open(cursor) { Ok(p) => p, Err(e) => return (inserted, Err(e.to_string())) };
            let got = package.select_rows(Select::table("T")).map(|rows| rows.len()).map_err(|e| e.to_string());
            (inserted, got)
        });
        match r {
            Err(_) => {
                println!("REPLAY family=rowlimit rows={n} verdict=VIOLATED (panic)");
                return 1;
            }
            Ok((true, Ok(k))) if k == n as usize => {}
            Ok((false, Ok(0))) => {}
            Ok((inserted, got)) => {
                println!("REPLAY family=rowlimit rows={n} insert_ok={inserted} after_reopen={got:?} verdict=VIOLATED (an accepted insert does not read back)");
                return 1;
            }
        }
    }
    println!("REPLAY family=rowlimit verdict=ok (65536 rows round-trip, 65537 are refused)");
    0
}

/// C15 probe: `faults` -- a medium that fails write number k (only that one: transient; or that
/// one and all later ones: persistent).  Five scripts (change the summary information; insert
/// rows with new strings; both; update a row; delete a row) each end with flush() and with into_inner(); for every k and both
/// fault kinds: if EVERY call returned Ok, the bytes on the medium must reopen to the state the
/// calls describe.  A panic counts as a violation.
mod faults {
    use std::cell::RefCell;
    use std::io::{self, Read, Seek, SeekFrom, Write};
    use std::rc::Rc;
    pub struct Shared { pub data: Vec<u8>, pub writes: usize, pub fail_at: usize, pub persistent: bool, pub reads: usize, pub read_fail_at: usize }
    #[derive(Clone)]
    pub struct Medium { pub sh: Rc<RefCell<Shared>>, pub pos: u64 }
    impl Read for Medium {
        fn read(&mut self, buf: &mut [u8]) -> io::Result<usize> {
            {
                let mut sh = self.sh.borrow_mut();
                let k = sh.reads;
                sh.reads += 1;
                if k == sh.read_fail_at {
                    return Err(io::Error::new(io::ErrorKind::Other, "injected read fault"));
                }
            }
            let sh = self.sh.borrow();
            let p = (self.pos as usize).min(sh.data.len());
            let n = buf.len().min(sh.data.len() - p);
            buf[..n].copy_from_slice(&sh.data[p..p + n]);
            drop(sh);
            self.pos += n as u64;
            Ok(n)
        }
    }
    impl Write for Medium {
        fn write(&mut self, buf: &[u8]) -> io::Result<usize> {
            let mut sh = self.sh.borrow_mut();
            let k = sh.writes;
            sh.writes += 1;
            if k == sh.fail_at || (sh.persistent && k > sh.fail_at) {
                return Err(io::Error::new(io::ErrorKind::Other, "injected write fault"));
            }
            let p = self.pos as usize;
            if sh.data.len() < p + buf.len() { sh.data.resize(p + buf.len(), 0); }
            sh.data[p..p + buf.len()].copy_from_slice(buf);
            drop(sh);
            self.pos += buf.len() as u64;
            Ok(buf.len())
        }
        fn flush(&mut self) -> io::Result<()> { Ok(()) }
    }
    impl Seek for Medium {
        fn seek(&mut self, from: SeekFrom) -> io::Result<u64> {
            let len = self.sh.borrow().data.len() as i64;
            let np = match from { SeekFrom::Start(n) => n as i64, SeekFrom::End(d) => len + d, SeekFrom::Current(d) => self.pos as i64 + d };
            if np < 0 { return Err(io::Error::new(io::ErrorKind::InvalidInput, "negative seek")); }
            self.pos = np as u64;
            Ok(self.pos)
        }
    }
}

fn replay_faults(_args: &[String]) -> i32 {
    use faults::{Medium, Shared};
    use msi::{Column, Delete, Expr, Insert, Select, Update};
    use std::cell::RefCell;
    use std::rc::Rc;
    panic::set_hook(Box::new(|_| {}));
    // a base package: one table with two rows, a title
    let base: Vec<u8> = {
        let mut p = Package::create(PackageType::Installer, Cursor::new(Vec::new())).unwrap();
        p.create_table("T", vec![Column::build("K").primary_key().int16(), Column::build("S").nullable().string(32)]).unwrap();
        p.insert_rows(Insert::into("T").row(vec![Value::Int(1), Value::Str("one".into())]).row(vec![Value::Int(2), Value::Str("two".into())])).unwrap();
        p.summary_info_mut().set_title("base");
        p.into_inner().unwrap().into_inner()
    };
    // state of a package: (title, rows)
    fn state(bytes: &[u8]) -> Result<(Option<String>, Vec<(i32, String)>), String> {
        let mut p = Package::open(Cursor::new(bytes.to_vec())).map_err(|e| format!("open: {e}"))?;
        let title = p.summary_info().title().map(|s| s.to_string());
        let mut rows = Vec::new();
        for r in p.select_rows(Select::table("T")).map_err(|e| format!("select: {e}"))? {
            let k = match r[0] { Value::Int(n) => n, _ => -1 };
            let s = match &r[1] { Value::Str(s) => s.clone(), _ => String::new() };
            rows.push((k, s));
        }
        Ok((title, rows))
    }
    for script in 0..5 {
        for end_with_into_inner in [false, true] {
            // fault-free run: expected state and number of writes
            let run = |fail_at: usize, persistent: bool| -> (bool, Vec<u8>, usize) {
                let sh = Rc::new(RefCell::new(Shared { data: base.clone(), writes: 0, fail_at, persistent, reads: 0, read_fail_at: usize::MAX }));
                let medium = Medium { sh: sh.clone(), pos: 0 };
                let all_ok = (|| -> std::io::Result<()> {
                    let mut p = Package::open(medium)?;
                    if script == 0 || script == 2 { p.summary_info_mut().set_title("changed title, long enough to matter"); }
                    if script == 1 || script == 2 {
                        p.insert_rows(Insert::into("T").row(vec![Value::Int(3), Value::Str("three".into())]).row(vec![Value::Int(4), Value::Str("a new string".into())]))?;
                    }
                    if script == 3 { p.update_rows(Update::table("T").set("S", Value::Str("updated".into())).with(Expr::col("K").eq(Expr::integer(2))))?; }
                    if script == 4 { p.delete_rows(Delete::from("T").with(Expr::col("K").eq(Expr::integer(1))))?; }
                    if end_with_into_inner { p.into_inner()?; } else { p.flush()?; drop(p); }
                    Ok(())
                })().is_ok();
                let b = sh.borrow();
                (all_ok, b.data.clone(), b.writes)
            };
            let (ok0, bytes0, nwrites) = run(usize::MAX, false);
            let want = match state(&bytes0) { Ok(s) if ok0 => s, _ => { println!("REPLAY family=faults verdict=ok (fault-free run did not complete; probe not applicable)"); return 0; } };
            for persistent in [false, true] {
                for k in 0..nwrites {
                    let res = panic::catch_unwind(panic::AssertUnwindSafe(|| run(k, persistent)));
                    let (all_ok, bytes, _) = match res {
                        Err(_) => {
                            println!("REPLAY family=faults script={script} end={} fault=write#{k}{} verdict=VIOLATED (panic)", if end_with_into_inner { "into_inner" } else { "flush" }, if persistent { "+" } else { "" });
                            return 1;
                        }
                        Ok(x) => x,
                    };
                    if all_ok {
                        let got = state(&bytes);
                        if got.as_ref().ok() != Some(&want) {
                            println!("REPLAY family=faults script={script} end={} fault=write#{k}{} every call returned Ok, but the medium reopens to {:?} instead of {:?} verdict=VIOLATED",
                                if end_with_into_inner { "into_inner" } else { "flush" }, if persistent { " and all later writes" } else { " only" }, got, want);
                            return 1;
                        }
                    }
                }
            }
        }
    }
    println!("REPLAY family=faults verdict=ok (5 scripts x 2 endings x every write index x transient/persistent: no silent loss)");
    0
}

/// C14 probe: `bom` -- bytes that happen to start like a Unicode byte order mark are still bytes
/// of the code page: every string of representable characters must survive encode then decode.
fn replay_bom(_args: &[String]) -> i32 {
    for (id, samples) in [
        (1252, vec!["\u{ef}\u{bb}\u{bf}abc", "\u{ff}\u{fe}a", "\u{fe}\u{ff}xy", "plain"]),
        (1251, vec!["\u{43f}\u{2550}\u{2510}", "\u{44f}\u{44e}ab"]),
        (65001, vec!["\u{feff}abc", "abc"]),
    ] {
        let cp = msi::CodePage::from_id(id).expect("page");
        for s in samples {
            let enc = cp.encode(s);
            let dec = cp.decode(&enc);
            if dec != s {
                println!("REPLAY family=bom page={id} string={s:?} bytes={enc:02x?} decode(encode(s))={dec:?} verdict=VIOLATED (the bytes were not decoded in the page: a byte order mark was sniffed)");
                return 1;
            }
        }
    }
    println!("REPLAY family=bom verdict=ok");
    0
}

/// MSI stream-name mangling (independent of the library): table streams start with U+4840
fn mangle_table_name(name: &str) -> String {
    fn b64(c: char) -> Option<u32> {
        match c {
            '0'..='9' => Some(c as u32 - '0' as u32),
            'A'..='Z' => Some(10 + c as u32 - 'A' as u32),
            'a'..='z' => Some(36 + c as u32 - 'a' as u32),
            '.' => Some(62),
            '_' => Some(63),
            _ => None,
        }
    }
    let cs: Vec<char> = name.chars().collect();
    let mut out = String::from('\u{4840}');
    let mut i = 0;
    while i < cs.len() {
        if let Some(a) = b64(cs[i]) {
            if i + 1 < cs.len() {
                if let Some(b) = b64(cs[i + 1]) {
                    out.push(char::from_u32(0x3800 + (b << 6) + a).unwrap());
                    i += 2;
                    continue;
                }
            }
            out.push(char::from_u32(0x4800 + a).unwrap());
        } else {
            out.push(cs[i]);
        }
        i += 1;
    }
    out
}

/// C09 probe: `zerorc` -- a structure-aware corruption named by the property: one pool entry's
/// reference count is set to zero while its text stays in the string data.  The package must
/// still open, and a mutating operation followed by a flush must return a value or an error --
/// not panic.
fn replay_zerorc(_args: &[String]) -> i32 {
    use msi::{Column, Insert};
    use std::io::{Read, Seek, SeekFrom, Write};
    panic::set_hook(Box::new(|_| {}));
    let marker = "a-string-of-exactly-33-characters";
    assert_eq!(marker.len(), 33);
    let bytes: Vec<u8> = {
        let mut p = Package::create(PackageType::Installer, Cursor::new(Vec::new())).unwrap();
        p.create_table("T", vec![Column::build("K").primary_key().int16(), Column::build("S").nullable().string(64)]).unwrap();
        p.insert_rows(Insert::into("T").row(vec![Value::Int(1), Value::Str(marker.into())])).unwrap();
        p.into_inner().unwrap().into_inner()
    };
    // patch `_StringPool`: the entry of length 33 gets reference count 0 (its text stays in `_StringData`)
    let patched: Vec<u8> = {
        let mut comp = cfb::CompoundFile::open(Cursor::new(bytes)).unwrap();
        let name = mangle_table_name("_StringPool");
        let mut pool = Vec::new();
        comp.open_stream(&name).unwrap().read_to_end(&mut pool).unwrap();
        let mut off = 4;
        let mut hit = false;
        while off + 4 <= pool.len() {
            let len = u16::from_le_bytes([pool[off], pool[off + 1]]);
            if len == 33 { pool[off + 2] = 0; pool[off + 3] = 0; hit = true; break; }
            off += 4;
        }
        if !hit { println!("REPLAY family=zerorc verdict=ok (marker entry not found; probe not applicable)"); return 0; }
        let mut st = comp.open_stream(&name).unwrap();
        st.seek(SeekFrom::Start(0)).unwrap();
        st.write_all(&pool).unwrap();
        st.flush().unwrap();
        drop(st);
        comp.flush().unwrap();
        comp.into_inner().into_inner()
    };
    let r = panic::catch_unwind(move || -> Result<(), String> {
        let mut p = Package::open(Cursor::new(patched)).map_err(|e| format!("open: {e}"))?;
        p.insert_rows(Insert::into("T").row(vec![Value::Int(2), Value::Str("a brand new string".into())])).map_err(|e| format!("insert: {e}"))?;
        p.flush().map_err(|e| format!("flush: {e}"))?;
        Ok(())
    });
    match r {
        Err(_) => {
            println!("REPLAY family=zerorc corruption=\"pool entry with reference count 0 and text left in the string data\" verdict=VIOLATED (open succeeded, then insert_rows + flush PANICKED)");
            1
        }
        Ok(res) => {
            println!("REPLAY family=zerorc result={res:?} verdict=ok (a value or an error, no panic)");
            0
        }
    }
}

/// C09 probe: `dangling` -- a structure-aware corruption named by the property: a string cell of
/// a user table is replaced by a dangling reference (beyond the pool) or by a reference to an
/// unused entry.  The package must open, reading must work, and delete / update followed by a
/// flush must return a value or an error -- not panic.
fn replay_dangling(_args: &[String]) -> i32 {
    use msi::{Column, Delete, Insert, Select, Update};
    use std::io::{Read, Seek, SeekFrom, Write};
    panic::set_hook(Box::new(|_| {}));
    let bytes: Vec<u8> = {
        let mut p = Package::create(PackageType::Installer, Cursor::new(Vec::new())).unwrap();
        p.create_table("T", vec![Column::build("K").primary_key().int16(), Column::build("S").nullable().string(64)]).unwrap();
        p.insert_rows(Insert::into("T").row(vec![Value::Int(1), Value::Str("some text".into())])).unwrap();
        p.into_inner().unwrap().into_inner()
    };
    for (what, refnum) in [("a reference beyond the pool", 0x7ff0u16), ("a reference to an unused entry", 0u16)] {
        for op in ["select", "delete", "update"] {
            let b0 = bytes.clone();
            let r = panic::catch_unwind(move || -> Result<String, String> {
                let mut comp = cfb::CompoundFile::open(Cursor::new(b0)).unwrap();
                let tname = mangle_table_name("T");
                let mut data = Vec::new();
                comp.open_stream(&tname).unwrap().read_to_end(&mut data).unwrap();
                // one row, column-major: K (2 bytes) then S (2 bytes)
                let mut rn = refnum;
                if rn == 0 {
                    // find an unused pool entry?  none exists in a fresh file: point at the entry of the table
                    // name instead after making it unused is too invasive -- use "one past the last entry"
                    let pname = mangle_table_name("_StringPool");
                    let mut pool = Vec::new();
                    comp.open_stream(&pname).unwrap().read_to_end(&mut pool).unwrap();
                    rn = ((pool.len() - 4) / 4 + 1) as u16;
                }
                data[2] = (rn & 0xff) as u8;
                data[3] = (rn >> 8) as u8;
                let mut st = comp.open_stream(&tname).unwrap();
                st.seek(SeekFrom::Start(0)).unwrap();
                st.write_all(&data).unwrap();
                st.flush().unwrap();
                drop(st);
                comp.flush().unwrap();
                let patched = comp.into_inner().into_inner();
                let mut p = Package::open(Cursor::new(patched)).map_err(|e| format!("open: {e}"))?;
                match op {
                    "select" => { let n = p.select_rows(Select::table("T")).map_err(|e| format!("select: {e}"))?.count(); Ok(format!("{n} rows")) }
                    "delete" => { p.delete_rows(Delete::from("T")).map_err(|e| format!("delete: {e}"))?; p.flush().map_err(|e| format!("flush: {e}"))?; Ok("deleted".into()) }
                    _ => { p.update_rows(Update::table("T").set("S", Value::Str("new".into()))).map_err(|e| format!("update: {e}"))?; p.flush().map_err(|e| format!("flush: {e}"))?; Ok("updated".into()) }
                }
            });
            if r.is_err() {
                println!("REPLAY family=dangling corruption=\"string cell replaced by {what}\" operation={op} verdict=VIOLATED (PANIC)");
                return 1;
            }
        }
    }
    println!("REPLAY family=dangling verdict=ok (select / delete / update on a dangling string cell: values or errors, no panic)");
    0
}

/// C15 probe (reads): `readfaults` -- the medium fails read number k once.  Opening the package
/// and reading its state must either report an error or yield exactly the state that is on the
/// medium; a panic counts as a violation.
fn replay_readfaults(_args: &[String]) -> i32 {
    use faults::{Medium, Shared};
    use msi::{Column, Insert, Select};
    use std::cell::RefCell;
    use std::rc::Rc;
    panic::set_hook(Box::new(|_| {}));
    let base: Vec<u8> = {
        let mut p = Package::create(PackageType::Installer, Cursor::new(Vec::new())).unwrap();
        p.create_table("T", vec![Column::build("K").primary_key().int16(), Column::build("S").nullable().string(32)]).unwrap();
        p.insert_rows(Insert::into("T").row(vec![Value::Int(1), Value::Str("one".into())]).row(vec![Value::Int(2), Value::Str("two".into())])).unwrap();
        // a pool larger than the container's 8 KiB stream buffer: its later chunks are read separately
        p.create_table("Big", vec![Column::build("K").primary_key().int16(), Column::build("S").nullable().string(32)]).unwrap();
        let mut q = Insert::into("Big");
        for i in 0..3000 { q = q.row(vec![Value::Int(i), Value::Str(format!("string number {i}"))]); }
        p.insert_rows(q).unwrap();
        p.summary_info_mut().set_title("base");
        p.into_inner().unwrap().into_inner()
    };
    type St = (Option<String>, Vec<String>, Vec<(i32, String)>);
    let run = |read_fail_at: usize| -> (Result<St, String>, usize) {
        let sh = Rc::new(RefCell::new(Shared { data: base.clone(), writes: 0, fail_at: usize::MAX, persistent: false, reads: 0, read_fail_at }));
        let medium = Medium { sh: sh.clone(), pos: 0 };
        let r = (|| -> Result<St, String> {
            let mut p = Package::open(medium).map_err(|e| format!("open: {e}"))?;
            let title = p.summary_info().title().map(|s| s.to_string());
            let mut tables: Vec<String> = p.tables().map(|t| t.name().to_string()).collect();
            tables.sort();
            let mut rows = Vec::new();
            for r in p.select_rows(Select::table("T")).map_err(|e| format!("select: {e}"))? {
                let k = match r[0] { Value::Int(n) => n, _ => -1 };
                let s = match &r[1] { Value::Str(s) => s.clone(), _ => String::new() };
                rows.push((k, s));
            }
            // the last rows of the big table: their strings sit at the end of the pool
            for r in p.select_rows(Select::table("Big")).map_err(|e| format!("select Big: {e}"))? {
                let k = match r[0] { Value::Int(n) => n, _ => -1 };
                if k >= 2990 {
                    let s = match &r[1] { Value::Str(s) => s.clone(), _ => String::new() };
                    rows.push((k, s));
                }
            }
            Ok((title, tables, rows))
        })();
        let n = sh.borrow().reads;
        (r, n)
    };
    let (want, nreads) = run(usize::MAX);
    let want = match want { Ok(s) => s, Err(e) => { println!("REPLAY family=readfaults verdict=ok (fault-free run failed: {e}; probe not applicable)"); return 0; } };
    for k in 0..nreads {
        let res = panic::catch_unwind(panic::AssertUnwindSafe(|| run(k)));
        match res {
            Err(_) => { println!("REPLAY family=readfaults fault=read#{k} verdict=VIOLATED (panic)"); return 1; }
            Ok((Ok(got), _)) if got != want => {
                println!("REPLAY family=readfaults fault=read#{k} (of {nreads}) open and every read returned Ok, but the state read is {got:?} instead of {want:?} verdict=VIOLATED");
                return 1;
            }
            _ => {}
        }
    }
    println!("REPLAY family=readfaults verdict=ok ({nreads} read indices: an error or the true state)");
    0
}

/// C07 probe: `category` -- Category::validate against oracles written out character by character,
/// on a fixed battery: every string of up to 5 characters over a small alphabet (identifier,
/// property, case, cabinet), file names built from a base, dots and an extension (cabinet), and
/// lists of numeric pieces (version, language).  A battery, not a search: used to look for a
/// concrete failing input when the contract of Category::validate fails.
fn replay_category(_args: &[String]) -> i32 {
    use msi::Category;
    let id_start = |c: char| c.is_ascii_alphabetic() || c == '_';
    let id_cont = |c: char| c.is_ascii_alphanumeric() || c == '_' || c == '.';
    let ident = |s: &str| -> bool {
        let mut it = s.chars();
        match it.next() { Some(c) if id_start(c) => it.all(id_cont), _ => false }
    };
    let property = |s: &str| -> bool { if let Some(rest) = s.strip_prefix('%') { ident(rest) } else { ident(s) } };
    let cabinet = |s: &str| -> bool {
        if let Some(rest) = s.strip_prefix('#') { return ident(rest); }
        let bytes = s.as_bytes();
        let mut last_dot = None;
        for (i, b) in bytes.iter().enumerate() { if *b == b'.' { last_dot = Some(i); } }
        match last_dot {
            None => !bytes.is_empty() && bytes.len() <= 8,
            Some(k) => k >= 1 && k <= 8 && bytes.len() - k - 1 <= 3,
        }
    };
    let numbers = |s: &str, sep: char, max_parts: usize| -> bool {
        let mut parts: Vec<String> = vec![String::new()];
        for c in s.chars() { if c == sep { parts.push(String::new()); } else { parts.last_mut().unwrap().push(c); } }
        parts.len() <= max_parts && parts.iter().all(|p| p.parse::<u16>().is_ok())
    };
    let check = |cat: Category, s: &str, want: bool| -> bool {
        let got = std::panic::catch_unwind(|| cat.validate(s));
        match got {
            Err(_) => { println!("REPLAY family=category category={cat} string={s:?} verdict=VIOLATED (validate panicked)"); false }
            Ok(g) if g != want => { println!("REPLAY family=category category={cat} string={s:?} validate={g} documented_grammar={want} verdict=VIOLATED"); false }
            _ => true,
        }
    };
    // 1. every string of up to 5 characters over a small alphabet
    let alphabet = ['a', 'Z', '_', '.', '%', '#', '7', '\u{e9}'];
    let mut strings: Vec<String> = vec![String::new()];
    let mut frontier: Vec<String> = vec![String::new()];
    for _ in 0..5 {
        let mut next = Vec::new();
        for s in &frontier { for c in alphabet { let mut t = s.clone(); t.push(c); next.push(t); } }
        strings.extend(next.iter().cloned());
        frontier = next;
    }
    for s in &strings {
        let ok = check(Category::Identifier, s, ident(s))
            && check(Category::Property, s, property(s))
            && check(Category::Cabinet, s, cabinet(s))
            && check(Category::UpperCase, s, !s.chars().any(|c| c.is_ascii_lowercase()))
            && check(Category::LowerCase, s, !s.chars().any(|c| c.is_ascii_uppercase()))
            && check(Category::Text, s, true);
        if !ok { return 1; }
    }
    // 2. cabinet file names: base, extra dotted segments, extension (lengths around the limits; a two-byte character)
    for base_len in 0..=10usize {
        for ext_len in 0..=5usize {
            for mid in ["", ".", ".x", ".xy.z", "\u{e9}"] {
                for with_ext in [false, true] {
                    let mut s = "b".repeat(base_len);
                    s.push_str(mid);
                    if with_ext { s.push('.'); s.push_str(&"e".repeat(ext_len)); }
                    if !check(Category::Cabinet, &s, cabinet(&s)) { return 1; }
                }
            }
        }
    }
    // 3. version / language: lists of numeric pieces
    let pieces = ["", "0", "1", "65535", "65536", "+1", "-1", "a", "007"];
    let mut lists: Vec<Vec<&str>> = vec![vec![]];
    for _ in 0..5 {
        let mut next = Vec::new();
        for l in &lists { if l.len() == lists.last().map_or(0, |x| x.len()) { for p in pieces { let mut t = l.clone(); t.push(p); next.push(t); } } }
        lists.extend(next);
    }
    for l in &lists {
        if l.is_empty() { continue; }
        let v = l.join(".");
        let g = l.join(",");
        if !check(Category::Version, &v, numbers(&v, '.', 4)) { return 1; }
        if !check(Category::Language, &g, numbers(&g, ',', usize::MAX)) { return 1; }
    }
    // 4. integer text
    for s in ["", "0", "-32768", "32767", "32768", "-32769", "+5", "--5", "5 ", "2147483647", "2147483648", "-2147483648", "-2147483649", "1e3"] {
        if !check(Category::Integer, s, s.parse::<i16>().is_ok()) { return 1; }
        if !check(Category::DoubleInteger, s, s.parse::<i32>().is_ok()) { return 1; }
    }
    // 5. GUIDs: a few fixed samples
    for (s, want) in [("{0000002A-000C-0005-0C03-0938362B0809}", true), ("{0000002a-000c-0005-0c03-0938362b0809}", false),
                      ("0000002A-000C-0005-0C03-0938362B0809", false), ("{0000002A-000C-0005-0C03-0938362B080}", false),
                      ("{0000002A-000C-0005-0C03-0938362B0809}}", false), ("{\u{e9}000002A-000C-0005-0C03-0938362B080}", false), ("", false),
                      ("{000000000000000000000000000000000000}", false)] {
        if !check(Category::Guid, s, want) { return 1; }
    }
    println!("REPLAY family=category verdict=ok (battery found no failing input)");
    0
}

/// C09 probe: `catalognull` -- a structure-aware corruption: one cell of a catalog table
/// (`_Tables`, `_Columns`, `_Validation`) is overwritten with the null encoding (zero bytes).
/// Opening the file must return a package or an error -- not panic.  The streams are column-major:
/// column c of an n-row table starts at n * (sum of the widths of the columns before c).
fn replay_catalognull(_args: &[String]) -> i32 {
    use msi::Column;
    use std::io::{Read, Seek, SeekFrom, Write};
    panic::set_hook(Box::new(|_| {}));
    let bytes: Vec<u8> = {
        let mut p = Package::create(PackageType::Installer, Cursor::new(Vec::new())).unwrap();
        p.create_table("T", vec![Column::build("K").primary_key().int16(), Column::build("S").nullable().string(64)]).unwrap();
        p.into_inner().unwrap().into_inner()
    };
    // (stream, widths of its columns with two-byte string references, column to null)
    let cases: [(&str, &[usize], usize); 8] = [
        ("_Tables", &[2], 0),
        ("_Columns", &[2, 2, 2, 2], 0), ("_Columns", &[2, 2, 2, 2], 1), ("_Columns", &[2, 2, 2, 2], 2), ("_Columns", &[2, 2, 2, 2], 3),
        ("_Validation", &[2, 2, 2, 4, 4, 2, 2, 2, 2, 2], 0), ("_Validation", &[2, 2, 2, 4, 4, 2, 2, 2, 2, 2], 1), ("_Validation", &[2, 2, 2, 4, 4, 2, 2, 2, 2, 2], 2),
    ];
    for (table, widths, col) in cases {
        let patched: Option<Vec<u8>> = {
            let mut comp = cfb::CompoundFile::open(Cursor::new(bytes.clone())).unwrap();
            let name = mangle_table_name(table);
            let mut data = Vec::new();
            comp.open_stream(&name).unwrap().read_to_end(&mut data).unwrap();
            let row_width: usize = widths.iter().sum();
            if data.is_empty() || data.len() % row_width != 0 { None } else {
                let n = data.len() / row_width;
                let start: usize = n * widths[..col].iter().sum::<usize>();
                // the LAST row's cell of that column
                let off = start + (n - 1) * widths[col];
                for b in &mut data[off..off + widths[col]] { *b = 0; }
                let mut st = comp.open_stream(&name).unwrap();
                st.seek(SeekFrom::Start(0)).unwrap();
                st.write_all(&data).unwrap();
                st.flush().unwrap();
                drop(st);
                comp.flush().unwrap();
                Some(comp.into_inner().into_inner())
            }
        };
        let Some(patched) = patched else { println!("REPLAY family=catalognull table={table} verdict=ok (stream layout not as expected; case not applicable)"); continue; };
        let r = panic::catch_unwind(move || Package::open(Cursor::new(patched)).map(|_| ()).map_err(|e| e.to_string()));
        match r {
            Err(_) => {
                println!("REPLAY family=catalognull corruption=\"null cell in column {col} of the last row of {table}\" verdict=VIOLATED (Package::open PANICKED)");
                return 1;
            }
            Ok(res) => println!("REPLAY family=catalognull table={table} column={col} result={res:?} (a package or an error)"),
        }
    }
    println!("REPLAY family=catalognull verdict=ok (no panic)");
    0
}

/// C06 probe: `enumsemi` -- column definitions whose enumeration the `_Validation` table cannot
/// represent (a value containing the separator ';', or the empty string as the only value): table
/// creation must refuse them, or they must reopen unchanged -- not be silently altered.
fn replay_enumsemi(_args: &[String]) -> i32 {
    use msi::Column;
    panic::set_hook(Box::new(|_| {}));
    for vals in [vec!["a;b", "c"], vec![""], vec!["x", ""], vec!["p", "q"]] {
        let r = panic::catch_unwind(|| -> Result<(Vec<String>, Vec<String>), String> {
            let mut p = Package::create(PackageType::Installer, Cursor::new(Vec::new())).map_err(|e| e.to_string())?;
            p.create_table("T", vec![Column::build("K").primary_key().int16(), Column::build("E").enum_values(&vals).string(20)]).map_err(|e| format!("refused: {e}"))?;
            let before: Vec<String> = p.get_table("T").unwrap().columns()[1].enum_values().map(|v| v.to_vec()).unwrap_or_default();
            let cur = p.into_inner().map_err(|e| e.to_string())?;
            let p2 = Package::open(cur).map_err(|e| e.to_string())?;
            let after: Vec<String> = p2.get_table("T").unwrap().columns()[1].enum_values().map(|v| v.to_vec()).unwrap_or_default();
            Ok((before, after))
        });
        match r {
            Err(_) => { println!("REPLAY family=enumsemi enum_values={vals:?} verdict=VIOLATED (panicked)"); return 1; }
            Ok(Ok((b, a))) if b != a => {
                println!("REPLAY family=enumsemi enum_values={vals:?} created_as={b:?} reopened_as={a:?} verdict=VIOLATED (accepted by create_table, silently altered by saving and reopening)");
                return 1;
            }
            Ok(res) => println!("REPLAY family=enumsemi enum_values={vals:?} result={:?}", res.map(|(b, _)| b)),
        }
    }
    println!("REPLAY family=enumsemi verdict=ok (refused, or reopened unchanged)");
    0
}

/// C20 probe: `longname` -- a table (or column) name that passes the name checks but is longer than
/// the catalog tables allow (`_Validation.Table` / `.Column` hold at most 32 characters): the call
/// must return an error AND leave the package unchanged.
fn replay_longname(_args: &[String]) -> i32 {
    use msi::Column;
    panic::set_hook(Box::new(|_| {}));
    let long_table = "T".repeat(40);
    let long_column = "C".repeat(40);
    let cases: [(&str, &str, &str); 3] = [("table name of 40 characters", long_table.as_str(), "K"), ("column name of 40 characters", "Short", long_column.as_str()),
                                          ("table name of 32 characters (within the limit)", &long_table[..32], "K")];
    for (what, tname, cname) in cases {
        let tname = tname.to_string();
        let cname = cname.to_string();
        let r = panic::catch_unwind(move || -> Result<(bool, bool, usize, usize), String> {
            let mut p = Package::create(PackageType::Installer, Cursor::new(Vec::new())).map_err(|e| e.to_string())?;
            let tables_before = p.tables().count();
            let res = p.create_table(tname.as_str(), vec![Column::build(cname.as_str()).primary_key().int16()]);
            let has = p.has_table(&tname);
            let tables_after = p.tables().count();
            Ok((res.is_ok(), has, tables_before, tables_after))
        });
        match r {
            Err(_) => { println!("REPLAY family=longname case=\"{what}\" verdict=VIOLATED (panicked)"); return 1; }
            Ok(Err(e)) => { println!("REPLAY family=longname case=\"{what}\" setup failed: {e}"); }
            Ok(Ok((ok, has, before, after))) => {
                if !ok && (has || after != before) {
                    println!("REPLAY family=longname case=\"{what}\" create_table=Err has_table_afterwards={has} tables_before={before} tables_after={after} verdict=VIOLATED (the call returned an error but left the table behind)");
                    return 1;
                }
                println!("REPLAY family=longname case=\"{what}\" create_table_ok={ok} has_table_afterwards={has}");
            }
        }
    }
    println!("REPLAY family=longname verdict=ok (refused without a trace, or accepted)");
    0
}

/// C09 probe: `joincol` -- a join whose ON condition names a column that neither side has: the
/// read operation must return a value or an error, not panic.
fn replay_joincol(_args: &[String]) -> i32 {
    use msi::{Column, Insert, Select};
    panic::set_hook(Box::new(|_| {}));
    let mk = || -> Package<Cursor<Vec<u8>>> {
        let mut p = Package::create(PackageType::Installer, Cursor::new(Vec::new())).unwrap();
        p.create_table("A", vec![Column::build("K").primary_key().int16(), Column::build("V").nullable().int16()]).unwrap();
        p.create_table("B", vec![Column::build("K").primary_key().int16(), Column::build("W").nullable().int16()]).unwrap();
        p.insert_rows(Insert::into("A").row(vec![Value::Int(1), Value::Int(2)])).unwrap();
        p.insert_rows(Insert::into("B").row(vec![Value::Int(1), Value::Int(3)])).unwrap();
        p
    };
    let queries: Vec<(&str, Box<dyn Fn() -> Select>)> = vec![
        ("inner join ON A.Nope = B.K", Box::new(|| Select::table("A").inner_join(Select::table("B"), Expr::col("A.Nope").eq(Expr::col("B.K"))))),
        ("left join ON A.K = B.Nope", Box::new(|| Select::table("A").left_join(Select::table("B"), Expr::col("A.K").eq(Expr::col("B.Nope"))))),
        ("inner join ON A.K = B.K", Box::new(|| Select::table("A").inner_join(Select::table("B"), Expr::col("A.K").eq(Expr::col("B.K"))))),
    ];
    for (what, q) in queries {
        let mut p = mk();
        let r = panic::catch_unwind(panic::AssertUnwindSafe(|| match p.select_rows(q()) { Ok(rows) => format!("Ok({} rows)", rows.count()), Err(e) => format!("Err({e})") }));
        match r {
            Err(_) => { println!("REPLAY family=joincol query=\"{what}\" verdict=VIOLATED (select_rows PANICKED)"); return 1; }
            Ok(res) => println!("REPLAY family=joincol query=\"{what}\" result={res}"),
        }
    }
    println!("REPLAY family=joincol verdict=ok (a value or an error)");
    0
}

/// C08 probe: `droptable` -- "no text of deleted rows or dropped tables remains in the file's string
/// data": a table whose rows hold a string that nothing else uses is dropped, the package saved, and
/// the `_StringData` stream of the saved file searched for that string.
fn replay_droptable(_args: &[String]) -> i32 {
    use msi::{Column, Insert};
    use std::io::Read;
    panic::set_hook(Box::new(|_| {}));
    let marker = "only-the-dropped-table-uses-this-text";
    let r = panic::catch_unwind(|| -> Result<bool, String> {
        let mut p = Package::create(PackageType::Installer, Cursor::new(Vec::new())).map_err(|e| e.to_string())?;
        p.create_table("Doomed", vec![Column::build("K").primary_key().int16(), Column::build("S").nullable().string(64)]).map_err(|e| e.to_string())?;
        p.insert_rows(Insert::into("Doomed").row(vec![Value::Int(1), Value::Str(marker.into())])).map_err(|e| e.to_string())?;
        p.drop_table("Doomed").map_err(|e| e.to_string())?;
        let bytes = p.into_inner().map_err(|e| e.to_string())?.into_inner();
        let mut comp = cfb::CompoundFile::open(Cursor::new(bytes)).map_err(|e| e.to_string())?;
        let mut data = Vec::new();
        comp.open_stream(mangle_table_name("_StringData")).map_err(|e| e.to_string())?.read_to_end(&mut data).map_err(|e| e.to_string())?;
        Ok(data.windows(marker.len()).any(|w| w == marker.as_bytes()))
    });
    match r {
        Err(_) => { println!("REPLAY family=droptable verdict=VIOLATED (panicked)"); 1 }
        Ok(Err(e)) => { println!("REPLAY family=droptable setup failed: {e} verdict=ok (not applicable)"); 0 }
        Ok(Ok(true)) => { println!("REPLAY family=droptable table=Doomed string={marker:?} verdict=VIOLATED (after drop_table and saving, the text of the dropped table's row is still in _StringData: its reference was never released)"); 1 }
        Ok(Ok(false)) => { println!("REPLAY family=droptable verdict=ok (the text of the dropped table is gone from the string data)"); 0 }
    }
}

fn main() {
    let args: Vec<String> = std::env::args().skip(1).collect();
    if args.is_empty() {
        eprintln!("usage: vreplay <family> ...");
        std::process::exit(2);
    }
    let rc = match args[0].as_str() {
        "expr" => replay_expr(&args[1..]),
        "codepage" => replay_codepage(&args[1..]),
        "logic" => replay_logic(&args[1..]),
        "lang" => replay_lang(&args[1..]),
        "stream" => replay_stream(&args[1..]),
        "encode" => replay_encode(&args[1..]),
        "time" => replay_time(&args[1..]),
        "poolcap" => replay_poolcap(&args[1..]),
        "rowlimit" => replay_rowlimit(&args[1..]),
        "faults" => replay_faults(&args[1..]),
        "bom" => replay_bom(&args[1..]),
        "readfaults" => replay_readfaults(&args[1..]),
        "zerorc" => replay_zerorc(&args[1..]),
        "dangling" => replay_dangling(&args[1..]),
        "category" => replay_category(&args[1..]),
        "catalognull" => replay_catalognull(&args[1..]),
        "enumsemi" => replay_enumsemi(&args[1..]),
        "longname" => replay_longname(&args[1..]),
        "joincol" => replay_joincol(&args[1..]),
        "droptable" => replay_droptable(&args[1..]),
        _ => 2,
    };
    std::process::exit(rc);
}
