// Kani harnesses for src/internal/category.rs (child module `vk`)
use super::*;

/// harness helper: take the Ok value of an io::Result without pulling the
/// Debug/Drop machinery of io::Error into the model (unwrap() would)
pub fn must<T>(r: std::io::Result<T>) -> T {
    match r {
        Ok(x) => x,
        Err(e) => {
            core::mem::forget(e);
            assert!(false, "expected Ok");
            kani::assume(false);
            unreachable!()
        }
    }
}
use std::str::FromStr;

pub fn stub_format(_args: core::fmt::Arguments<'_>) -> String {
    String::new()
}

// @harness name=category_name_roundtrip kind=Pc tier=quick props=C06,C02 desc="Category::all() has 26 entries; for every index i: from_str(all()[i].as_str()) == all()[i]; entries are pairwise distinct (string compares over the static names, loops bounded by the table)"
#[kani::proof]
#[kani::unwind(40)]
#[kani::stub(alloc::fmt::format, stub_format)]
fn category_name_roundtrip() {
    let all = Category::all();
    assert!(all.len() == 26);
    let i: usize = kani::any();
    kani::assume(i < all.len());
    let c = all[i];
    let back = Category::from_str(c.as_str());
    assert!(back.is_ok());
    assert!(must(back) == c);
    let j: usize = kani::any();
    kani::assume(j < all.len() && j != i);
    assert!(all[j] != c);
}
