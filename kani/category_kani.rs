// Kani harnesses for src/internal/category.rs (child module `vk`)
use super::*;
use std::str::FromStr;

pub fn stub_format(_args: core::fmt::Arguments<'_>) -> String {
    String::new()
}

// @harness name=category_name_roundtrip kind=Pc tier=quick props=C06,C02 desc="Category::all() has 26 entries; for every index i: from_str(all()[i].as_str()) == all()[i]; entries are pairwise distinct (string compares over the static names, loops bounded by the table)"
#[kani::proof]
#[kani::unwind(40)]
#[kani::stub(alloc::fmt::format, stub_format)]
fn category_name_roundtrip() {
    let all = Category::all();
    assert!(all.len() == 26);
    let i: usize = kani::any();
    kani::assume(i < all.len());
    let c = all[i];
    let back = Category::from_str(c.as_str());
    assert!(back.is_ok());
    assert!(back.unwrap() == c);
    let j: usize = kani::any();
    kani::assume(j < all.len() && j != i);
    assert!(all[j] != c);
}
