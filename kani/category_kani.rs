// Kani harnesses for src/internal/category.rs (child module `vk`)
use super::*;

/// harness helper: take the Ok value of an io::Result without pulling the
/// Debug/Drop machinery of io::Error into the model (unwrap() would)
pub fn must<T>(r: std::io::Result<T>) -> T {
    match r {
        Ok(x) => x,
        Err(e) => {
            core::mem::forget(e);
            assert!(false, "expected Ok");
            kani::assume(false);
            unreachable!()
        }
    }
}
use std::str::FromStr;

pub fn stub_format(_args: core::fmt::Arguments<'_>) -> String {
    String::new()
}

// @harness name=category_name_roundtrip kind=Pc tier=quick props=C06,C02 desc="Category::all() has 26 entries; for every index i: from_str(all()[i].as_str()) == all()[i]; entries are pairwise distinct (string compares over the static names, loops bounded by the table)"
#[kani::proof]
#[kani::unwind(40)]
#[kani::stub(alloc::fmt::format, stub_format)]
fn category_name_roundtrip() {
    let all = Category::all();
    assert!(all.len() == 26);
    let i: usize = kani::any();
    kani::assume(i < all.len());
    let c = all[i];
    let back = Category::from_str(c.as_str());
    assert!(back.is_ok());
    assert!(must(back) == c);
    let j: usize = kani::any();
    kani::assume(j < all.len() && j != i);
    assert!(all[j] != c);
}

// @harness name=category_identifier_property kind=Bk tier=quick props=C07 bound="every string of 0..=4 characters over the alphabet {'%', '_', 'A', 'z', '7', '.', '$'}" desc="Category::Identifier.validate(s) <=> s starts with a letter or '_' and continues with letters, digits, '_' or '.'; Category::Property.validate(s) <=> s, after AT MOST ONE leading '%', is such an identifier (so \"%%Foo\" is not a property); UpperCase / LowerCase.validate(s) <=> s holds no ASCII letter of the other case; Text accepts everything -- the oracle is written out character by character, independent of the library's closures"
#[kani::proof]
#[kani::unwind(6)]
#[kani::stub(alloc::fmt::format, stub_format)]
fn category_identifier_property() {
    const ALPHA: [u8; 7] = [b'%', b'_', b'A', b'z', b'7', b'.', b'$'];
    let n: usize = kani::any();
    kani::assume(n <= 4);
    let mut buf = [0u8; 4];
    let mut i = 0;
    while i < 4 {
        let k: usize = kani::any();
        kani::assume(k < 7);
        buf[i] = ALPHA[k];
        i += 1;
    }
    // ASCII only, so every prefix is valid UTF-8
    let s: &str = unsafe { core::str::from_utf8_unchecked(&buf[..n]) };
    let is_start = |b: u8| b == b'_' || b.is_ascii_alphabetic();
    let is_cont = |b: u8| b == b'_' || b == b'.' || b.is_ascii_alphanumeric();
    let ident_from = |from: usize| -> bool {
        if from >= n || !is_start(buf[from]) {
            return false;
        }
        let mut j = from + 1;
        let mut ok = true;
        while j < n {
            if !is_cont(buf[j]) {
                ok = false;
            }
            j += 1;
        }
        ok
    };
    let want_ident = ident_from(0);
    let want_prop = if n > 0 && buf[0] == b'%' { ident_from(1) } else { ident_from(0) };
    assert!(Category::Identifier.validate(s) == want_ident);
    assert!(Category::Property.validate(s) == want_prop);
    // UpperCase / LowerCase: no ASCII letter of the other case anywhere
    let mut has_lower = false;
    let mut has_upper = false;
    let mut j = 0;
    while j < n {
        if buf[j].is_ascii_lowercase() { has_lower = true; }
        if buf[j].is_ascii_uppercase() { has_upper = true; }
        j += 1;
    }
    assert!(Category::UpperCase.validate(s) == !has_lower);
    assert!(Category::LowerCase.validate(s) == !has_upper);
    assert!(Category::Text.validate(s));
}

// @harness name=category_integer kind=Bk tier=quick props=C07 bound="every string of 0..=3 characters over the alphabet {'-', '+', '0', '7', '.', 'a'}" desc="Category::Integer / DoubleInteger.validate(s) <=> s is an optional sign followed by at least one digit (every such string of <= 3 characters is in range) -- the oracle is written character by character.  (The Version / Language grammars -- split + parse per group -- did not finish in 5 minutes of CBMC even at this size and are not checked.)"
#[kani::proof]
#[kani::unwind(6)]
#[kani::stub(alloc::fmt::format, stub_format)]
fn category_integer() {
    const ALPHA: [u8; 6] = [b'-', b'+', b'0', b'7', b'.', b'a'];
    let n: usize = kani::any();
    kani::assume(n <= 3);
    let mut buf = [0u8; 3];
    let mut i = 0;
    while i < 3 {
        let k: usize = kani::any();
        kani::assume(k < 6);
        buf[i] = ALPHA[k];
        i += 1;
    }
    let s: &str = unsafe { core::str::from_utf8_unchecked(&buf[..n]) };
    // signed integer: [+-]? digit+
    let mut j = 0;
    if j < n && (buf[j] == b'-' || buf[j] == b'+') { j += 1; }
    let digits_from = j;
    let mut all_digits = true;
    while j < n {
        if !buf[j].is_ascii_digit() { all_digits = false; }
        j += 1;
    }
    let want_int = all_digits && digits_from < n;
    assert!(Category::Integer.validate(s) == want_int);
    assert!(Category::DoubleInteger.validate(s) == want_int);
}

// (a bounded harness for the Cabinet grammar -- rsplitn + collect + reverse -- did not finish in 5 minutes of CBMC
// for strings of up to 6 characters over 3 and was not kept)
