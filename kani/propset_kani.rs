// Kani harnesses for src/internal/propset.rs (child module `vk`)
use super::*;

/// harness helper: take the Ok value of an io::Result without pulling the
/// Debug/Drop machinery of io::Error into the model (unwrap() would)
pub fn must<T>(r: std::io::Result<T>) -> T {
    match r {
        Ok(x) => x,
        Err(e) => {
            core::mem::forget(e);
            assert!(false, "expected Ok");
            kani::assume(false);
            unreachable!()
        }
    }
}

pub fn stub_format(_args: core::fmt::Arguments<'_>) -> String {
    String::new()
}

/// stand-in for CodePage::encode: ANY byte vector of 0..=7 bytes, independent
/// of the input (over-approximates every code page, including pages where the
/// encoded length differs from the UTF-8 length)
pub fn stub_encode_any7(_cp: &CodePage, _s: &str) -> Vec<u8> {
    let n: usize = kani::any();
    kani::assume(n <= 7);
    let mut v = Vec::new();
    let mut i = 0;
    while i < n {
        v.push(kani::any());
        i += 1;
    }
    v
}

fn any_timestamp() -> Timestamp {
    let b: [u8; 8] = kani::any();
    let mut r: &[u8] = &b;
    must(Timestamp::read_from(&mut r))
}

fn fixed_value_check(v: PropertyValue, want_tag: u32) {
    let mut buf = [0xEEu8; 16];
    let left = {
        let mut w: &mut [u8] = &mut buf;
        assert!(v.write(&mut w, CodePage::Utf8).is_ok());
        w.len()
    };
    let n = 16 - left;
    assert!(n as u32 == v.encoded_size_including_padding(CodePage::Utf8));
    assert!(n % 4 == 0);
    let tag = u32::from_le_bytes([buf[0], buf[1], buf[2], buf[3]]);
    assert!(tag == want_tag);
    let back = must(PropertyValue::read(&buf[..n], CodePage::Utf8));
    // compare without the derived PartialEq (which drags String comparison in)
    match (&v, &back) {
        (PropertyValue::Empty, PropertyValue::Empty) => {}
        (PropertyValue::Null, PropertyValue::Null) => {}
        (PropertyValue::I1(a), PropertyValue::I1(b)) => assert!(a == b),
        (PropertyValue::I2(a), PropertyValue::I2(b)) => assert!(a == b),
        (PropertyValue::I4(a), PropertyValue::I4(b)) => assert!(a == b),
        (PropertyValue::FileTime(a), PropertyValue::FileTime(b)) => assert!(a == b),
        _ => assert!(false),
    }
    core::mem::forget(back);
    core::mem::forget(v);
}

// @harness name=propval_fixed_ints kind=Pc tier=quick props=C10,C01,C02 desc="fixed-size property values Empty, Null, I1, I2, I4 (all payloads): write emits exactly encoded_size_including_padding() bytes, a multiple of 4, starting with the documented type tag (0, 1, 16, 2, 3); read returns the same value"
#[kani::proof]
#[kani::unwind(4)]
#[kani::stub(alloc::fmt::format, stub_format)]
fn propval_fixed_ints() {
    match kani::any::<u8>() % 5 {
        0 => fixed_value_check(PropertyValue::Empty, 0),
        1 => fixed_value_check(PropertyValue::Null, 1),
        2 => fixed_value_check(PropertyValue::I1(kani::any()), 16),
        3 => fixed_value_check(PropertyValue::I2(kani::any()), 2),
        _ => fixed_value_check(PropertyValue::I4(kani::any()), 3),
    }
}

// @harness name=propval_fixed_filetime kind=Pc tier=quick props=C10,C01,C02,C18 desc="FileTime property value (every 64-bit tick count): 12 bytes = tag 64 + the little-endian ticks; read returns the same value"
#[kani::proof]
#[kani::unwind(4)]
#[kani::stub(alloc::fmt::format, stub_format)]
fn propval_fixed_filetime() {
    fixed_value_check(PropertyValue::FileTime(any_timestamp()), 64);
}

/// deterministic stand-in for CodePage::encode: the encoded form of each of the
/// three harness strings (told apart by their UTF-8 length 0, 1, 2) is an
/// arbitrary but fixed byte vector of 0..=7 bytes chosen by the harness.
static mut ENC_LEN: [usize; 3] = [0; 3];
static mut ENC_BYTES: [[u8; 7]; 3] = [[0; 7]; 3];

pub fn stub_encode_table(_cp: &CodePage, s: &str) -> Vec<u8> {
    let k = if s.len() >= 2 { 2 } else { s.len() };
    let mut v = Vec::new();
    let mut i = 0;
    unsafe {
        while i < ENC_LEN[k] {
            v.push(ENC_BYTES[k][i]);
            i += 1;
        }
    }
    v
}

fn init_encode_table() {
    unsafe {
        ENC_LEN = kani::any();
        ENC_BYTES = kani::any();
        kani::assume(ENC_LEN[0] == 0 && ENC_LEN[1] <= 7 && ENC_LEN[2] <= 7);
    }
}

fn harness_string(k: u8) -> String {
    match k % 3 { 0 => String::new(), 1 => String::from("a"), _ => String::from("\u{e9}") }
}

// (propset_write_offsets, a bounded harness over the real BTreeMap, needed > 15 min of CBMC and was removed:
// PropertySet::write is proved in Verus, contracts/serial.vt)

// @harness name=propval_lpstr_size kind=Pc tier=quick props=C10,C01 desc="LpStr: for ANY encoded form of 0..=7 bytes (CodePage::encode stubbed by an arbitrary but fixed byte string per input, so the encoded length is independent of the UTF-8 length) write emits tag 30, length = bytes+1, the bytes, a NUL and zero padding to a multiple of 4 -- and the number of bytes emitted equals encoded_size_including_padding(codepage), the size PropertySet::write uses to compute the offsets of the following properties"
#[kani::proof]
#[kani::unwind(10)]
#[kani::stub(alloc::fmt::format, stub_format)]
#[kani::stub(CodePage::encode, stub_encode_table)]
fn propval_lpstr_size() {
    init_encode_table();
    let v = PropertyValue::LpStr(harness_string(kani::any()));
    let mut buf = [0xEEu8; 24];
    let left = {
        let mut w: &mut [u8] = &mut buf;
        assert!(v.write(&mut w, CodePage::Windows1252).is_ok());
        w.len()
    };
    let n = 24 - left;
    assert!(n % 4 == 0);
    assert!(n as u32 == v.encoded_size_including_padding(CodePage::Windows1252));
    assert!(u32::from_le_bytes([buf[0], buf[1], buf[2], buf[3]]) == 30);
    let len = u32::from_le_bytes([buf[4], buf[5], buf[6], buf[7]]) as usize;
    assert!(len >= 1 && len <= 8);
    assert!(buf[8 + len - 1] == 0);
    assert!(n == 8 + ((len + 3) / 4) * 4);
    let mut i = 8 + len;
    while i < n {
        assert!(buf[i] == 0);
        i += 1;
    }
}

pub fn stub_decode_const(_cp: &CodePage, bytes: &[u8]) -> String {
    if bytes.is_empty() { String::new() } else { String::from("x") }
}

// @harness name=propval_read_any kind=Bk tier=thorough props=C02,C09 bound="any input of 0..=14 bytes (code-page decoding stubbed)" desc="PropertyValue::read on arbitrary bytes never panics: it returns an error for short input, unknown type tags and unterminated strings, and otherwise a value whose type is the one the tag designates (0 Empty, 1 Null, 2 I2, 3 I4, 16 I1, 30 LpStr, 64 FileTime) -- a declared string length larger than the input is an error, not an allocation failure"
#[kani::proof]
#[kani::unwind(16)]
#[kani::stub(alloc::fmt::format, stub_format)]
#[kani::stub(CodePage::decode, stub_decode_const)]
fn propval_read_any() {
    let buf: [u8; 14] = kani::any();
    let len: usize = kani::any();
    kani::assume(len <= 14);
    // keep the declared string length small enough for the model's allocator; larger
    // declared lengths hit the same loop, which stops at end of input
    if len >= 8 && buf[0] == 30 {
        kani::assume(u32::from_le_bytes([buf[4], buf[5], buf[6], buf[7]]) <= 64);
    }
    let got = PropertyValue::read(&buf[..len], CodePage::Utf8);
    if len < 4 {
        assert!(got.is_err());
        return;
    }
    let tag = u32::from_le_bytes([buf[0], buf[1], buf[2], buf[3]]);
    match got {
        Ok(v) => {
            match v {
                PropertyValue::Empty => assert!(tag == 0),
                PropertyValue::Null => assert!(tag == 1),
                PropertyValue::I2(x) => assert!(tag == 2 && len >= 6 && x == i16::from_le_bytes([buf[4], buf[5]])),
                PropertyValue::I4(x) => assert!(tag == 3 && len >= 8 && x == i32::from_le_bytes([buf[4], buf[5], buf[6], buf[7]])),
                PropertyValue::I1(x) => assert!(tag == 16 && len >= 5 && x == buf[4] as i8),
                PropertyValue::LpStr(ref _s) => assert!(tag == 30 && len >= 9),
                PropertyValue::FileTime(_) => assert!(tag == 64 && len >= 12),
            }
            core::mem::forget(v);
        }
        Err(e) => {
            core::mem::forget(e);
            // errors only for: unknown tag, or input too short for the tagged value
            let need = match tag { 0 | 1 => 4, 2 => 6, 3 => 8, 16 => 5, 64 => 12, 30 => 9, _ => usize::MAX };
            assert!(need == usize::MAX || len < need || tag == 30);
        }
    }
}

