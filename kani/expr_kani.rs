// Kani harnesses for src/internal/expr.rs (child module `vk`, sees private items)
use super::*;
use crate::internal::value::Value;

fn any_unop() -> UnOp {
    match kani::any::<u8>() % 3 {
        0 => UnOp::Neg,
        1 => UnOp::BitNot,
        _ => UnOp::BoolNot,
    }
}

fn any_binop() -> BinOp {
    match kani::any::<u8>() % 15 {
        0 => BinOp::Eq,
        1 => BinOp::Ne,
        2 => BinOp::Lt,
        3 => BinOp::Le,
        4 => BinOp::Gt,
        5 => BinOp::Ge,
        6 => BinOp::Add,
        7 => BinOp::Sub,
        8 => BinOp::Mul,
        9 => BinOp::Div,
        10 => BinOp::BitAnd,
        11 => BinOp::BitOr,
        12 => BinOp::BitXor,
        13 => BinOp::Shl,
        _ => BinOp::Shr,
    }
}

fn any_scalar() -> Value {
    if kani::any() {
        Value::Null
    } else {
        Value::Int(kani::any())
    }
}

// @harness name=c13_unop_total kind=Pc tier=quick props=C13 desc="UnOp::eval never panics on Null or any i32"
// @harness name=c13_binop_total kind=Pc tier=quick props=C13 desc="BinOp::eval never panics on (Null or any i32)^2, all 15 operators"
/// Pc: UnOp::eval / BinOp::eval never panic on (Null | Int) operands, all i32.
/// (counterexample source for the Verus obligations of C13)
#[kani::proof]
#[kani::unwind(2)]
fn c13_unop_total() {
    let op = any_unop();
    let a = any_scalar();
    let _ = op.eval(a);
}

#[kani::proof]
#[kani::unwind(2)]
fn c13_binop_total() {
    let op = any_binop();
    let a = any_scalar();
    let b = any_scalar();
    let _ = op.eval(a, b);
}
