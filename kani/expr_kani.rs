// Kani harnesses for src/internal/expr.rs (child module `vk`, sees private items)
use super::*;
use crate::internal::value::Value;

fn any_unop() -> UnOp {
    match kani::any::<u8>() % 3 {
        0 => UnOp::Neg,
        1 => UnOp::BitNot,
        _ => UnOp::BoolNot,
    }
}

fn any_binop() -> BinOp {
    match kani::any::<u8>() % 15 {
        0 => BinOp::Eq,
        1 => BinOp::Ne,
        2 => BinOp::Lt,
        3 => BinOp::Le,
        4 => BinOp::Gt,
        5 => BinOp::Ge,
        6 => BinOp::Add,
        7 => BinOp::Sub,
        8 => BinOp::Mul,
        9 => BinOp::Div,
        10 => BinOp::BitAnd,
        11 => BinOp::BitOr,
        12 => BinOp::BitXor,
        13 => BinOp::Shl,
        _ => BinOp::Shr,
    }
}

fn any_scalar() -> Value {
    if kani::any() {
        Value::Null
    } else {
        Value::Int(kani::any())
    }
}

// @harness name=c13_unop_total kind=Pc tier=quick props=C13 desc="UnOp::eval never panics on Null or any i32"
// @harness name=c13_binop_total kind=Pc tier=quick props=C13 desc="BinOp::eval never panics on (Null or any i32)^2, all 15 operators"
/// Pc: UnOp::eval / BinOp::eval never panic on (Null | Int) operands, all i32.
/// (counterexample source for the Verus obligations of C13)
#[kani::proof]
#[kani::unwind(2)]
fn c13_unop_total() {
    let op = any_unop();
    let a = any_scalar();
    let _ = op.eval(a);
}

#[kani::proof]
#[kani::unwind(2)]
fn c13_binop_total() {
    let op = any_binop();
    let a = any_scalar();
    let b = any_scalar();
    let _ = op.eval(a, b);
}

fn truth(v: &Value) -> bool {
    match *v {
        Value::Null => false,
        Value::Int(n) => n != 0,
        Value::Str(ref s) => !s.is_empty(),
    }
}

fn is_int(v: &Value, want: i32) -> bool {
    match *v {
        Value::Int(n) => n == want,
        _ => false,
    }
}

// @harness name=c13_logic_ops kind=Pc tier=quick props=C13 desc="AND / OR / NOT on every pair of scalar operands (Null or any i32), evaluated through Ast::eval on literal leaves: the result is exactly Int(1) or Int(0) according to the documented truthiness (null and zero are false), whichever operand decides"
#[kani::proof]
#[kani::unwind(2)]
fn c13_logic_ops() {
    use crate::internal::table::{Row, Table};
    let a = any_scalar();
    let b = any_scalar();
    let (ta, tb) = (truth(&a), truth(&b));
    let row = Row::new(Table::new(String::new(), Vec::new(), false), Vec::new());
    let lit = |v: &Value| Box::new(Ast::Literal(v.clone()));
    let and = Ast::And(lit(&a), lit(&b)).eval(&row);
    assert!(is_int(&and, (ta && tb) as i32));
    let or = Ast::Or(lit(&a), lit(&b)).eval(&row);
    assert!(is_int(&or, (ta || tb) as i32));
    let not = Ast::UnOp(UnOp::BoolNot, lit(&a)).eval(&row);
    assert!(is_int(&not, (!ta) as i32));
}
