// Kani harnesses for src/internal/column.rs (child module `vk`)
use super::*;

/// harness helper: take the Ok value of an io::Result without pulling the
/// Debug/Drop machinery of io::Error into the model (unwrap() would)
pub fn must<T>(r: std::io::Result<T>) -> T {
    match r {
        Ok(x) => x,
        Err(e) => {
            core::mem::forget(e);
            assert!(false, "expected Ok");
            kani::assume(false);
            unreachable!()
        }
    }
}
use crate::internal::stringpool::StringRef;
use crate::internal::value::ValueRef;

pub fn stub_format(_args: core::fmt::Arguments<'_>) -> String {
    String::new()
}

fn any_coltype_int() -> ColumnType {
    if kani::any() { ColumnType::Int16 } else { ColumnType::Int32 }
}

/// number of bytes consumed from / written to a slice cursor
fn used(before: usize, after: usize) -> u64 {
    (before - after) as u64
}

// ---------------------------------------------------------------------------
// cell codec: integers

// @harness name=cell_int16_roundtrip kind=Pc tier=quick props=C01,C08 desc="Int16 column: every valid value n in (-32768, 32767] and null: write_value emits exactly width()=2 bytes, they are the offset-binary little-endian encoding (n+0x8000; 0 for null), and read_value returns the same value"
#[kani::proof]
#[kani::unwind(3)]
#[kani::stub(alloc::fmt::format, stub_format)]
fn cell_int16_roundtrip() {
    let long: bool = kani::any();
    let ct = ColumnType::Int16;
    let v = if kani::any() {
        ValueRef::Null
    } else {
        let n: i32 = kani::any();
        kani::assume(n > i16::MIN as i32 && n <= i16::MAX as i32);
        ValueRef::Int(n)
    };
    let mut buf = [0xAAu8; 4];
    let left = {
        let mut w: &mut [u8] = &mut buf;
        let r = ct.write_value(&mut w, v, long);
        assert!(r.is_ok());
        w.len()
    };
    assert!(used(4, left) == ct.width(long));
    assert!(ct.width(long) == 2);
    // format: offset binary, zero is null
    let word = u16::from_le_bytes([buf[0], buf[1]]);
    match v {
        ValueRef::Null => assert!(word == 0),
        ValueRef::Int(n) => assert!(word as i32 == n + 0x8000 && word != 0),
        _ => unreachable!(),
    }
    assert!(buf[2] == 0xAA && buf[3] == 0xAA);
    let mut r: &[u8] = &buf[..2];
    let back = ct.read_value(&mut r, long);
    assert!(r.is_empty());
    assert!(must(back) == v);
}

// @harness name=cell_int32_roundtrip kind=Pc tier=quick props=C01,C08 desc="Int32 column: every n > i32::MIN and null: 4 bytes, offset-binary (n+2^31) little-endian, 0 = null, read_value inverts write_value"
#[kani::proof]
#[kani::unwind(3)]
#[kani::stub(alloc::fmt::format, stub_format)]
fn cell_int32_roundtrip() {
    let long: bool = kani::any();
    let ct = ColumnType::Int32;
    let v = if kani::any() {
        ValueRef::Null
    } else {
        let n: i32 = kani::any();
        kani::assume(n > i32::MIN);
        ValueRef::Int(n)
    };
    let mut buf = [0xAAu8; 6];
    let left = {
        let mut w: &mut [u8] = &mut buf;
        let r = ct.write_value(&mut w, v, long);
        assert!(r.is_ok());
        w.len()
    };
    assert!(used(6, left) == ct.width(long));
    assert!(ct.width(long) == 4);
    let word = u32::from_le_bytes([buf[0], buf[1], buf[2], buf[3]]);
    match v {
        ValueRef::Null => assert!(word == 0),
        ValueRef::Int(n) => assert!(word as i64 == n as i64 + 0x8000_0000i64 && word != 0),
        _ => unreachable!(),
    }
    assert!(buf[4] == 0xAA && buf[5] == 0xAA);
    let mut r: &[u8] = &buf[..4];
    let back = ct.read_value(&mut r, long);
    assert!(r.is_empty());
    assert!(must(back) == v);
}

// @harness name=cell_int_read_any_bytes kind=Pc tier=quick props=C02,C09 desc="reader alone against the format: any 0..4 input bytes, Int16/Int32: never panics; short input is an error; otherwise 0 is null and w is Int(w - 2^(bits-1)), consuming exactly the column width"
#[kani::proof]
#[kani::unwind(3)]
#[kani::stub(alloc::fmt::format, stub_format)]
fn cell_int_read_any_bytes() {
    let long: bool = kani::any();
    let ct = any_coltype_int();
    let buf: [u8; 4] = kani::any();
    let len: usize = kani::any();
    kani::assume(len <= 4);
    let mut r: &[u8] = &buf[..len];
    let got = ct.read_value(&mut r, long);
    let width = ct.width(long) as usize;
    if len < width {
        assert!(got.is_err());
    } else {
        assert!(len - r.len() == width);
        let v = must(got);
        match ct {
            ColumnType::Int16 => {
                let w = u16::from_le_bytes([buf[0], buf[1]]);
                if w == 0 {
                    assert!(v == ValueRef::Null);
                } else {
                    assert!(v == ValueRef::Int(w as i32 - 0x8000));
                }
            }
            _ => {
                let w = u32::from_le_bytes(buf);
                if w == 0 {
                    assert!(v == ValueRef::Null);
                } else {
                    assert!(v == ValueRef::Int((w as i64 - 0x8000_0000i64) as i32));
                }
            }
        }
    }
}

// ---------------------------------------------------------------------------
// cell codec: string references (through the column type)

// @harness name=cell_str_roundtrip kind=Pc tier=quick props=C01,C02,C08,C09 desc="Str column: any 3 input bytes, both reference widths: read_value never panics, 0 is null, otherwise the 1-based little-endian reference; writing the value back emits exactly width() bytes equal to the input"
#[kani::proof]
#[kani::unwind(3)]
#[kani::stub(alloc::fmt::format, stub_format)]
fn cell_str_roundtrip() {
    let long: bool = kani::any();
    let max_len: usize = kani::any();
    let ct = ColumnType::Str(max_len);
    let width = ct.width(long) as usize;
    assert!(width == if long { 3 } else { 2 });
    let buf: [u8; 3] = kani::any();
    let mut r: &[u8] = &buf[..width];
    let v = must(ct.read_value(&mut r, long));
    assert!(r.is_empty());
    let number = buf[0] as i32 | (buf[1] as i32) << 8 | if long { (buf[2] as i32) << 16 } else { 0 };
    match v {
        ValueRef::Null => assert!(number == 0),
        ValueRef::Str(sr) => assert!(number != 0 && sr.number() == number),
        ValueRef::Int(_) => assert!(false),
    }
    let mut out = [0x55u8; 4];
    let left = {
        let mut w: &mut [u8] = &mut out;
        assert!(ct.write_value(&mut w, v, long).is_ok());
        w.len()
    };
    assert!(4 - left == width);
    assert!(out[0] == buf[0] && out[1] == buf[1]);
    if long {
        assert!(out[2] == buf[2]);
    } else {
        assert!(out[2] == 0x55);
    }
    assert!(out[3] == 0x55);
}

// @harness name=cell_type_mismatch_is_error kind=Pc tier=quick props=C08,C09 desc="writing an integer into a string column or a string reference into an integer column is an error (no bytes of a wrong width are emitted, no panic)"
#[kani::proof]
#[kani::unwind(3)]
#[kani::stub(alloc::fmt::format, stub_format)]
fn cell_type_mismatch_is_error() {
    let long: bool = kani::any();
    let refbytes: [u8; 2] = kani::any();
    kani::assume(refbytes[0] != 0 || refbytes[1] != 0);
    let mut rr: &[u8] = &refbytes;
    let sref = must(StringRef::read(&mut rr, false)).unwrap();
    let mut out = [0u8; 4];
    let mut w: &mut [u8] = &mut out;
    if kani::any() {
        let ct = any_coltype_int();
        assert!(ct.write_value(&mut w, ValueRef::Str(sref), long).is_err());
    } else {
        let ct = ColumnType::Str(kani::any());
        assert!(ct.write_value(&mut w, ValueRef::Int(kani::any()), long).is_err());
    }
    assert!(w.len() == 4);
}

// ---------------------------------------------------------------------------
// column type word (C06 / C02 / C09)

fn any_category() -> Option<Category> {
    match kani::any::<u8>() % 3 {
        0 => None,
        1 => Some(Category::Binary),
        _ => Some(Category::Text),
    }
}

fn make_column(coltype: ColumnType, loc: bool, nul: bool, pk: bool, cat: Option<Category>) -> Column {
    Column {
        name: String::new(),
        coltype,
        is_localizable: loc,
        is_nullable: nul,
        is_primary_key: pk,
        value_range: None,
        foreign_key: None,
        category: cat,
        enum_values: Vec::new(),
    }
}

fn empty_builder() -> ColumnBuilder {
    ColumnBuilder {
        name: String::new(),
        is_localizable: false,
        is_nullable: false,
        is_primary_key: false,
        value_range: None,
        foreign_key: None,
        category: None,
        enum_values: Vec::new(),
    }
}

// @harness name=typeword_from_bitfield_total kind=Pc tier=quick props=C02,C09 desc="ColumnType::from_bitfield / ColumnBuilder::with_bitfield on every i32 type word: no panic; string bit -> Str(low byte); else size 4 -> Int32, 2 or 1 -> Int16, anything else is an error; flags are the documented bits"
#[kani::proof]
#[kani::unwind(3)]
#[kani::stub(alloc::fmt::format, stub_format)]
fn typeword_from_bitfield_total() {
    let bits: i32 = kani::any();
    let r = empty_builder().with_bitfield(bits);
    let size = bits & 0xff;
    if bits & 0x800 != 0 {
        let c = must(r);
        assert!(c.coltype == ColumnType::Str(size as usize));
        assert!(c.is_nullable == (bits & 0x1000 != 0));
        assert!(c.is_primary_key == (bits & 0x2000 != 0));
        assert!(c.is_localizable == (bits & 0x200 != 0));
    } else if size == 4 {
        assert!(must(r).coltype == ColumnType::Int32);
    } else if size == 2 || size == 1 {
        assert!(must(r).coltype == ColumnType::Int16);
    } else {
        assert!(r.is_err());
    }
}

// @harness name=typeword_roundtrip kind=Pc tier=quick props=C06,C01,C20 desc="for every column definition (Int16, Int32, Str(w) for every usize w; all flag combinations; category none/Binary/other): either the definition is refused as not storable, or Column::bitfield() fits the Int16 catalog cell and with_bitfield(bitfield()) gives back the same type, width and flags"
#[kani::proof]
#[kani::unwind(3)]
#[kani::stub(alloc::fmt::format, stub_format)]
fn typeword_roundtrip() {
    let coltype = match kani::any::<u8>() % 3 {
        0 => ColumnType::Int16,
        1 => ColumnType::Int32,
        _ => ColumnType::Str(kani::any()),
    };
    let (loc, nul, pk): (bool, bool, bool) = (kani::any(), kani::any(), kani::any());
    let col = make_column(coltype, loc, nul, pk, any_category());
    if !col.is_storable() {
        // refused: nothing to round-trip.  The refusal must not hit definitions the format can hold.
        match coltype {
            ColumnType::Str(w) => assert!(w > 255),
            _ => assert!(false),
        }
        return;
    }
    let bits = col.bitfield();
    // the word is stored in the Int16 column _Columns.Type, whose valid values are (-32768, 32767]
    assert!(bits > i16::MIN as i32 && bits <= i16::MAX as i32);
    let back = must(empty_builder().with_bitfield(bits));
    assert!(back.coltype == coltype);
    assert!(back.is_localizable == loc);
    assert!(back.is_nullable == nul);
    assert!(back.is_primary_key == pk);
}
