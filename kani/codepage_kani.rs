// Kani harnesses for src/internal/codepage.rs (child module `vk`)
use super::*;

pub fn stub_format(_args: core::fmt::Arguments<'_>) -> String {
    String::new()
}

// @harness name=codepage_id_inverse kind=Pc tier=quick props=C14,C01,C02 desc="for every i32 id: from_id(id) is Some(cp) with cp.id() == id, except id 0 which maps to the default page (UTF-8, 65001); for every code page cp: from_id(cp.id()) == Some(cp); exactly the 26 documented identifiers (and 0) are accepted"
#[kani::proof]
#[kani::stub(alloc::fmt::format, stub_format)]
#[kani::unwind(28)]
fn codepage_id_inverse() {
    let id: i32 = kani::any();
    match CodePage::from_id(id) {
        Some(cp) => {
            if id == 0 {
                assert!(cp == CodePage::Utf8 && cp.id() == 65001);
            } else {
                assert!(cp.id() == id);
            }
            assert!(CodePage::from_id(cp.id()) == Some(cp));
        }
        None => {
            let known = [932, 936, 949, 950, 951, 1250, 1251, 1252, 1253, 1254, 1255, 1256, 1257, 1258,
                         10000, 10007, 20127, 28591, 28592, 28593, 28594, 28595, 28596, 28597, 28598, 65001];
            let mut i = 0;
            while i < known.len() {
                assert!(id != known[i]);
                i += 1;
            }
        }
    }
}

fn same(a: &'static encoding_rs::Encoding, b: &'static encoding_rs::Encoding) -> bool {
    core::ptr::eq(a, b)
}

// @harness name=codepage_wiring kind=Pc tier=quick props=C14 desc="encoding() of each non-ASCII page is (pointer-equal to) the encoding_rs table that the identifier and documentation name designate: 932 SHIFT_JIS, 936 GBK, 949 EUC_KR (=UHC), 950/951 BIG5, 1250..1258 WINDOWS_125x, 10000 MACINTOSH, 10007 X_MAC_CYRILLIC, 28592..28598 ISO_8859_2..8, 65001 UTF_8; 28591 -> WINDOWS_1252 (encoding_rs has no separate ISO-8859-1; accepted, see assumptions)"
#[kani::proof]
#[kani::stub(alloc::fmt::format, stub_format)]
#[kani::unwind(2)]
fn codepage_wiring() {
    let id: i32 = kani::any();
    if let Some(cp) = CodePage::from_id(id) {
        if cp == CodePage::UsAscii {
            return; // handled by ascii_encode / ascii_decode, never reaches encoding()
        }
        let e = cp.encoding();
        let want: &'static encoding_rs::Encoding = match cp.id() {
            932 => encoding_rs::SHIFT_JIS,
            936 => encoding_rs::GBK,
            949 => encoding_rs::EUC_KR,
            950 | 951 => encoding_rs::BIG5,
            1250 => encoding_rs::WINDOWS_1250,
            1251 => encoding_rs::WINDOWS_1251,
            1252 => encoding_rs::WINDOWS_1252,
            1253 => encoding_rs::WINDOWS_1253,
            1254 => encoding_rs::WINDOWS_1254,
            1255 => encoding_rs::WINDOWS_1255,
            1256 => encoding_rs::WINDOWS_1256,
            1257 => encoding_rs::WINDOWS_1257,
            1258 => encoding_rs::WINDOWS_1258,
            10000 => encoding_rs::MACINTOSH,
            10007 => encoding_rs::X_MAC_CYRILLIC,
            28591 => encoding_rs::WINDOWS_1252,
            28592 => encoding_rs::ISO_8859_2,
            28593 => encoding_rs::ISO_8859_3,
            28594 => encoding_rs::ISO_8859_4,
            28595 => encoding_rs::ISO_8859_5,
            28596 => encoding_rs::ISO_8859_6,
            28597 => encoding_rs::ISO_8859_7,
            28598 => encoding_rs::ISO_8859_8,
            _ => encoding_rs::UTF_8,
        };
        assert!(same(e, want));
    }
}

