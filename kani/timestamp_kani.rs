// Kani harnesses for src/internal/timestamp.rs (child module `vk`)
use super::*;

// @harness name=timestamp_codec kind=Pc tier=quick props=C18,C10,C01 desc="Timestamp::write_to emits the 8 little-endian bytes of the tick count and read_from inverts it, for every u64; short input is an error"
#[kani::proof]
fn timestamp_codec() {
    let t: u64 = kani::any();
    let mut buf = [0u8; 8];
    {
        let mut w: &mut [u8] = &mut buf;
        assert!(Timestamp(t).write_to(&mut w).is_ok());
        assert!(w.is_empty());
    }
    assert!(u64::from_le_bytes(buf) == t);
    let mut r: &[u8] = &buf;
    assert!(Timestamp::read_from(&mut r).unwrap() == Timestamp(t));
    let n: usize = kani::any();
    kani::assume(n < 8);
    let mut short: &[u8] = &buf[..n];
    assert!(Timestamp::read_from(&mut short).is_err());
}
