// Kani harnesses for src/internal/timestamp.rs (child module `vk`)
use super::*;

pub fn stub_format(_args: core::fmt::Arguments<'_>) -> String {
    String::new()
}

/// harness helper: take the Ok value of an io::Result without pulling the
/// Debug/Drop machinery of io::Error into the model (unwrap() would)
pub fn must<T>(r: std::io::Result<T>) -> T {
    match r {
        Ok(x) => x,
        Err(e) => {
            core::mem::forget(e);
            assert!(false, "expected Ok");
            kani::assume(false);
            unreachable!()
        }
    }
}

// @harness name=timestamp_codec kind=Pc tier=quick props=C18,C10,C01 desc="Timestamp::write_to emits the 8 little-endian bytes of the tick count and read_from inverts it, for every u64; short input is an error"
#[kani::proof]
#[kani::stub(alloc::fmt::format, stub_format)]
#[kani::unwind(3)]
fn timestamp_codec() {
    let t: u64 = kani::any();
    let mut buf = [0u8; 8];
    {
        let mut w: &mut [u8] = &mut buf;
        assert!(Timestamp(t).write_to(&mut w).is_ok());
        assert!(w.is_empty());
    }
    assert!(u64::from_le_bytes(buf) == t);
    let mut r: &[u8] = &buf;
    assert!(must(Timestamp::read_from(&mut r)) == Timestamp(t));
    let n: usize = kani::any();
    kani::assume(n < 8);
    let mut short: &[u8] = &buf[..n];
    assert!(Timestamp::read_from(&mut short).is_err());
}
