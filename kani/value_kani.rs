// Kani harnesses for src/internal/value.rs (child module `vk`)
use super::*;

pub fn stub_format(_args: core::fmt::Arguments<'_>) -> String {
    String::new()
}

/// harness helper: take the Ok value of an io::Result without pulling the
/// Debug/Drop machinery of io::Error into the model (unwrap() would)
pub fn must<T>(r: std::io::Result<T>) -> T {
    match r {
        Ok(x) => x,
        Err(e) => {
            core::mem::forget(e);
            assert!(false, "expected Ok");
            kani::assume(false);
            unreachable!()
        }
    }
}
use crate::internal::codepage::CodePage;

fn sref(i: usize) -> StringRef {
    let b = [(i + 1) as u8, 0u8];
    let mut r: &[u8] = &b;
    must(StringRef::read(&mut r, false)).unwrap()
}

fn pick(k: u8) -> String {
    match k % 3 {
        0 => String::new(),
        1 => String::from("a"),
        _ => String::from("b"),
    }
}

// @harness name=valueref_create_remove kind=Bk tier=thorough props=C08,C01 bound="pool grown from empty by at most 2 prior strings from {'a','b'}; value from {Null, any Int, '', 'a', 'b'}" desc="ValueRef::create pairs every string cell with exactly one pool reference and never leaves a live pool entry holding the empty string (the empty string is stored as the format's null); to_value reads the same value back ('' and null identified); remove returns the pool to its previous counts"
#[kani::proof]
#[kani::stub(alloc::fmt::format, stub_format)]
#[kani::unwind(5)]
fn valueref_create_remove() {
    let mut pool = StringPool::new(CodePage::Utf8);
    if kani::any() {
        pool.incref(pick(1 + kani::any::<u8>() % 2));
    }
    if kani::any() {
        pool.incref(pick(1 + kani::any::<u8>() % 2));
    }
    let n_before = pool.num_strings();
    let c1 = if n_before >= 1 { pool.refcount(sref(0)) } else { 0 };
    let c2 = if n_before >= 2 { pool.refcount(sref(1)) } else { 0 };
    let value = match kani::any::<u8>() % 3 {
        0 => Value::Null,
        1 => Value::Int(kani::any()),
        _ => Value::Str(pick(kani::any())),
    };
    let vr = ValueRef::create(value.clone(), &mut pool);
    // no live entry is the empty string
    let mut i = 0;
    while i < pool.num_strings() as usize {
        assert!(!(pool.refcount(sref(i)) > 0 && pool.get(sref(i)).is_empty()));
        i += 1;
    }
    // reads back ('' == null)
    let back = vr.to_value(&pool);
    match value {
        Value::Str(ref s) if s.is_empty() => assert!(back == Value::Null || back == Value::Str(String::new())),
        _ => assert!(back == value),
    }
    // exactly one reference was taken for a non-empty string, none otherwise
    let total = |p: &StringPool| {
        let mut t: u32 = 0;
        let mut j = 0;
        while j < p.num_strings() as usize {
            t += p.refcount(sref(j)) as u32;
            j += 1;
        }
        t
    };
    let before_total = c1 as u32 + c2 as u32;
    match vr {
        ValueRef::Str(_) => assert!(total(&pool) == before_total + 1),
        _ => assert!(total(&pool) == before_total),
    }
    vr.remove(&mut pool);
    assert!(total(&pool) == before_total);
    if n_before >= 1 { assert!(pool.refcount(sref(0)) == c1); }
    if n_before >= 2 { assert!(pool.refcount(sref(1)) == c2); }
}
