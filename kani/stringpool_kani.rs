// Kani harnesses for src/internal/stringpool.rs (child module `vk`)
use super::*;

/// harness helper: take the Ok value of an io::Result without pulling the
/// Debug/Drop machinery of io::Error into the model (unwrap() would)
pub fn must<T>(r: std::io::Result<T>) -> T {
    match r {
        Ok(x) => x,
        Err(e) => {
            core::mem::forget(e);
            assert!(false, "expected Ok");
            kani::assume(false);
            unreachable!()
        }
    }
}

pub fn stub_format(_args: core::fmt::Arguments<'_>) -> String {
    String::new()
}

/// stand-in for CodePage::encode in harnesses that only need the *length* of
/// the encoded text: any byte vector of 0..=3 bytes (over-approximates every
/// code page for strings whose encoding is that short)
pub fn stub_encode_short(_cp: &CodePage, _s: &str) -> Vec<u8> {
    let n: usize = kani::any();
    kani::assume(n <= 3);
    let mut v = Vec::new();
    let mut i = 0;
    while i < n {
        v.push(kani::any());
        i += 1;
    }
    v
}

pub fn stub_decode_const(_cp: &CodePage, bytes: &[u8]) -> String {
    if bytes.is_empty() { String::new() } else { String::from("x") }
}

// ---------------------------------------------------------------------------
// string references

// @harness name=strref_codec kind=Pc tier=quick props=C01,C08,C20 desc="StringRef::write/read for None and every reference 1..=0xffffff: long mode emits exactly the 3 little-endian bytes and reads back; short mode emits the 2 little-endian bytes when the number fits 16 bits and otherwise returns an error without writing"
#[kani::proof]
#[kani::unwind(3)]
#[kani::stub(alloc::fmt::format, stub_format)]
fn strref_codec() {
    let long: bool = kani::any();
    let number: i32 = kani::any();
    kani::assume(number >= 0 && number <= MAX_STRING_REF);
    let sref = if number == 0 { None } else { Some(StringRef(number)) };
    let mut buf = [0x77u8; 4];
    let (res, left) = {
        let mut w: &mut [u8] = &mut buf;
        let r = StringRef::write(&mut w, sref, long);
        (r, w.len())
    };
    if long {
        assert!(res.is_ok());
        assert!(left == 1);
        assert!(buf[0] as i32 | (buf[1] as i32) << 8 | (buf[2] as i32) << 16 == number);
        assert!(buf[3] == 0x77);
        let mut r: &[u8] = &buf[..3];
        assert!(must(StringRef::read(&mut r, true)) == sref);
        assert!(r.is_empty());
    } else if number <= 0xffff {
        assert!(res.is_ok());
        assert!(left == 2);
        assert!(buf[0] as i32 | (buf[1] as i32) << 8 == number);
        assert!(buf[2] == 0x77);
        let mut r: &[u8] = &buf[..2];
        assert!(must(StringRef::read(&mut r, false)) == sref);
        assert!(r.is_empty());
    } else {
        assert!(res.is_err());
        assert!(left == 4);
    }
}

// @harness name=strref_read_any kind=Pc tier=quick props=C02,C09 desc="StringRef::read on any 0..3 bytes, both widths: never panics; short input is an error; 0 is the null reference; otherwise the little-endian number, and number()/index() do not trip their assertions"
#[kani::proof]
#[kani::stub(alloc::fmt::format, stub_format)]
#[kani::unwind(3)]
fn strref_read_any() {
    let long: bool = kani::any();
    let buf: [u8; 3] = kani::any();
    let len: usize = kani::any();
    kani::assume(len <= 3);
    let mut r: &[u8] = &buf[..len];
    let got = StringRef::read(&mut r, long);
    let width = if long { 3 } else { 2 };
    if len < width {
        assert!(got.is_err());
    } else {
        let n = buf[0] as i32 | (buf[1] as i32) << 8 | if long { (buf[2] as i32) << 16 } else { 0 };
        match must(got) {
            None => assert!(n == 0),
            Some(sr) => {
                assert!(n != 0 && sr.number() == n);
                assert!(sr.index() == (n - 1) as usize);
            }
        }
        assert!(len - r.len() == width);
    }
}

// ---------------------------------------------------------------------------
// the pool as a data structure (bounded: 2 slots)

fn pick(k: u8) -> String {
    match k % 3 {
        0 => String::new(),
        1 => String::from("a"),
        _ => String::from("b"),
    }
}

/// well-formed 2-slot pool: refcount 0 <=> empty text (so no live entry is "")
fn any_pool2() -> (StringPool, [u8; 2], [u16; 2]) {
    let k: [u8; 2] = [kani::any::<u8>() % 3, kani::any::<u8>() % 3];
    let rc: [u16; 2] = kani::any();
    kani::assume((rc[0] == 0) == (k[0] == 0));
    kani::assume((rc[1] == 0) == (k[1] == 0));
    let pool = StringPool {
        codepage: CodePage::Utf8,
        strings: vec![(pick(k[0]), rc[0]), (pick(k[1]), rc[1])],
        long_string_refs: kani::any(),
        is_modified: false,
    };
    (pool, k, rc)
}

fn text_of(k: u8) -> &'static str {
    match k % 3 {
        0 => "",
        1 => "a",
        _ => "b",
    }
}

// @harness name=pool_incref_2slots kind=Bk tier=quick props=C08,C01 bound="pool of 2 slots, texts from {free,'a','b'}, new text from {'a','b','c'}, refcounts all of u16" desc="incref(s), s non-empty, on a well-formed pool: the returned reference names a slot holding s whose count went up by exactly one (or became 1), every other slot is untouched, a slot is appended only when no free slot and no matching slot below the 16-bit cap exists, the pool stays well-formed and is marked modified"
#[kani::proof]
#[kani::stub(alloc::fmt::format, stub_format)]
#[kani::unwind(4)]
fn pool_incref_2slots() {
    let (mut pool, k, rc) = any_pool2();
    let nk: u8 = kani::any::<u8>() % 3;
    let new: &'static str = match nk { 0 => "a", 1 => "b", _ => "c" };
    let r = pool.incref(String::from(new));
    let idx = r.index();
    assert!(pool.is_modified());
    assert!(idx < pool.strings.len());
    assert!(pool.strings[idx].0 == new);
    // which slot must have been used: first slot that is free or (matching and below the cap)
    let usable = |i: usize| rc[i] == 0 || (text_of(k[i]) == new && rc[i] < u16::MAX);
    if usable(0) {
        assert!(idx == 0);
    } else if usable(1) {
        assert!(idx == 1);
    } else {
        assert!(idx == 2 && pool.strings.len() == 3);
    }
    if idx < 2 {
        assert!(pool.strings.len() == 2);
        assert!(pool.strings[idx].1 == if rc[idx] == 0 { 1 } else { rc[idx] + 1 });
        let o = 1 - idx;
        assert!(pool.strings[o].1 == rc[o] && pool.strings[o].0 == text_of(k[o]));
    } else {
        assert!(pool.strings[2].1 == 1);
        assert!(pool.strings[0].1 == rc[0] && pool.strings[0].0 == text_of(k[0]));
        assert!(pool.strings[1].1 == rc[1] && pool.strings[1].0 == text_of(k[1]));
    }
    // still well-formed
    let mut i = 0;
    while i < pool.strings.len() {
        assert!((pool.strings[i].1 == 0) == pool.strings[i].0.is_empty());
        i += 1;
    }
}

// @harness name=pool_decref_2slots kind=Bk tier=quick props=C08 bound="pool of 2 slots, texts from {free,'a','b'}, refcounts all of u16" desc="decref(r) for a live reference: exactly that slot's count goes down by one, its text is cleared exactly when the count reaches zero, the other slot is untouched, the pool stays well-formed and is marked modified"
#[kani::proof]
#[kani::unwind(4)]
#[kani::stub(alloc::fmt::format, stub_format)]
fn pool_decref_2slots() {
    let (mut pool, k, rc) = any_pool2();
    let idx: usize = kani::any();
    kani::assume(idx < 2 && rc[idx] > 0);
    pool.decref(StringRef((idx + 1) as i32));
    assert!(pool.is_modified());
    assert!(pool.strings.len() == 2);
    assert!(pool.strings[idx].1 == rc[idx] - 1);
    if rc[idx] == 1 {
        assert!(pool.strings[idx].0.is_empty());
    } else {
        assert!(pool.strings[idx].0 == text_of(k[idx]));
    }
    let o = 1 - idx;
    assert!(pool.strings[o].1 == rc[o] && pool.strings[o].0 == text_of(k[o]));
    assert!((pool.strings[idx].1 == 0) == pool.strings[idx].0.is_empty());
}

// @harness name=pool_get_any_ref kind=Bk tier=quick props=C09,C08 bound="pool of 2 slots; the reference is any 3-byte value" desc="StringPool::get / refcount on ANY non-null reference (dangling or not) return the slot's text/count or \"\"/0, without panicking"
#[kani::proof]
#[kani::stub(alloc::fmt::format, stub_format)]
#[kani::unwind(4)]
fn pool_get_any_ref() {
    let (pool, k, rc) = any_pool2();
    let bytes: [u8; 3] = kani::any();
    let mut r: &[u8] = &bytes;
    if let Some(sr) = must(StringRef::read(&mut r, true)) {
        let i = sr.index();
        let s = pool.get(sr);
        let c = pool.refcount(sr);
        if i < 2 {
            assert!(s == text_of(k[i]) && c == rc[i]);
        } else {
            assert!(s.is_empty() && c == 0);
        }
    }
}

// ---------------------------------------------------------------------------
// _StringPool stream: reader against the format, any bytes (bounded length)

// @harness name=pool_read_header_any kind=Bk tier=thorough props=C02,C09 bound="any stream of 0..=12 bytes (header + up to 2 entries)" desc="read_from_pool never panics; fewer than 4 bytes is an error; bit 31 of the header selects 3-byte references; the low 31 bits must be a known code page id (0 = default); every complete 4-byte entry is (length, refcount), and an entry with length 0 and refcount > 0 is the long-string escape whose length is refcount<<16 | next length, count = next refcount"
#[kani::proof]
#[kani::unwind(5)]
#[kani::stub(alloc::fmt::format, stub_format)]
fn pool_read_header_any() {
    let buf: [u8; 12] = kani::any();
    let len: usize = kani::any();
    kani::assume(len <= 12);
    let got = StringPoolBuilder::read_from_pool(&buf[..len]);
    if len < 4 {
        assert!(got.is_err());
        return;
    }
    let header = u32::from_le_bytes([buf[0], buf[1], buf[2], buf[3]]);
    let id = (header & 0x7fff_ffff) as i32;
    match CodePage::from_id(id) {
        None => assert!(got.is_err()),
        Some(cp) => {
            let w = |i: usize| u16::from_le_bytes([buf[4 + 2 * i], buf[5 + 2 * i]]);
            let words = (len - 4) / 2;
            // independent parse of up to 4 words
            let mut exp: [(u32, u16); 2] = [(0, 0); 2];
            let mut n = 0usize;
            let mut bad = false;
            let mut i = 0usize;
            while i < words {
                if i + 1 >= words { bad = true; break; }
                let (l, c) = (w(i), w(i + 1));
                if l == 0 && c > 0 {
                    if i + 3 >= words { bad = true; break; }
                    exp[n] = (((c as u32) << 16) | w(i + 2) as u32, w(i + 3));
                    i += 4;
                } else {
                    exp[n] = (l as u32, c);
                    i += 2;
                }
                n += 1;
            }
            if bad {
                assert!(got.is_err());
            } else {
                let b = must(got);
                assert!(b.codepage == cp);
                assert!(b.long_string_refs == (header & 0x8000_0000 != 0));
                assert!(b.lengths_and_refcounts.len() == n);
                let mut j = 0;
                while j < n {
                    assert!(b.lengths_and_refcounts[j] == exp[j]);
                    j += 1;
                }
            }
        }
    }
}

// @harness name=pool_build_from_data_any kind=Bk tier=thorough props=C02,C09 bound="<= 2 entries, lengths <= 3, data of 0..=6 bytes; decode stubbed" desc="build_from_data never panics: it returns an error when the data stream is shorter than the declared lengths and otherwise one entry per declared (length, refcount) with the refcounts as declared (an entry declared unused -- count 0 -- is loaded empty), flags copied from the builder and the pool marked unmodified"
#[kani::proof]
#[kani::unwind(5)]
#[kani::stub(alloc::fmt::format, stub_format)]
#[kani::stub(CodePage::decode, stub_decode_const)]
fn pool_build_from_data_any() {
    let n: usize = kani::any();
    kani::assume(n <= 2);
    let l: [u32; 2] = kani::any();
    let c: [u16; 2] = kani::any();
    kani::assume(l[0] <= 3 && l[1] <= 3);
    let mut lr = Vec::new();
    if n > 0 { lr.push((l[0], c[0])); }
    if n > 1 { lr.push((l[1], c[1])); }
    let long: bool = kani::any();
    let b = StringPoolBuilder { codepage: CodePage::Utf8, long_string_refs: long, lengths_and_refcounts: lr };
    let data: [u8; 6] = kani::any();
    let dlen: usize = kani::any();
    kani::assume(dlen <= 6);
    let need = (if n > 0 { l[0] } else { 0 } + if n > 1 { l[1] } else { 0 }) as usize;
    let got = b.build_from_data(&data[..dlen]);
    if dlen < need {
        assert!(got.is_err());
    } else {
        let p = must(got);
        assert!(p.strings.len() == n);
        assert!(p.long_string_refs == long && !p.is_modified);
        // (an entry with reference count 0 is unused and is loaded EMPTY whatever length it declares:
        // fix D17; its bytes are still skipped in the data stream)
        if n > 0 { assert!(p.strings[0].1 == c[0] && p.strings[0].0.is_empty() == (l[0] == 0 || c[0] == 0)); }
        if n > 1 { assert!(p.strings[1].1 == c[1] && p.strings[1].0.is_empty() == (l[1] == 0 || c[1] == 0)); }
    }
}

// ---------------------------------------------------------------------------
// _StringPool stream: writer, and writer/reader as a pair

// @harness name=pool_write_read_pair kind=Bk tier=thorough props=C01,C08,C02 bound="2 entries; encoded lengths 0..=3 (CodePage::encode stubbed by any bytes of that length); refcounts all of u16; both reference widths; all 26 code pages" desc="write_pool emits header = code page id | (bit 31 iff long refs) and one (length, refcount) pair per entry in order; read_from_pool of those bytes yields the same code page, width flag and (length, refcount) list -- PROVIDED no entry has length 0 with refcount > 0 (that pair is the reader's long-string escape; the pool invariant rules it out)"
#[kani::proof]
#[kani::unwind(5)]
#[kani::stub(alloc::fmt::format, stub_format)]
#[kani::stub(CodePage::encode, stub_encode_short)]
fn pool_write_read_pair() {
    let id: i32 = kani::any();
    let cp = match CodePage::from_id(id) { Some(cp) => cp, None => return };
    let rc: [u16; 2] = kani::any();
    let long: bool = kani::any();
    let pool = StringPool {
        codepage: cp,
        strings: vec![(String::from("a"), rc[0]), (String::from("b"), rc[1])],
        long_string_refs: long,
        is_modified: true,
    };
    let mut out = [0u8; 16];
    let left = {
        let mut w: &mut [u8] = &mut out;
        assert!(pool.write_pool(&mut w).is_ok());
        w.len()
    };
    let n = 16 - left;
    assert!(n == 12);
    let header = u32::from_le_bytes([out[0], out[1], out[2], out[3]]);
    assert!(header & 0x7fff_ffff == cp.id() as u32);
    assert!((header & 0x8000_0000 != 0) == long);
    let l0 = u16::from_le_bytes([out[4], out[5]]);
    let l1 = u16::from_le_bytes([out[8], out[9]]);
    assert!(l0 <= 3 && l1 <= 3);
    assert!(u16::from_le_bytes([out[6], out[7]]) == rc[0]);
    assert!(u16::from_le_bytes([out[10], out[11]]) == rc[1]);
    // pair: only meaningful under the pool invariant (no live entry of encoded length 0)
    kani::assume(!(l0 == 0 && rc[0] > 0) && !(l1 == 0 && rc[1] > 0));
    kani::cover!(l0 == 3 && rc[0] == u16::MAX);
    let b = must(StringPoolBuilder::read_from_pool(&out[..n]));
    assert!(b.codepage == cp || (cp.id() == 65001 && b.codepage == CodePage::Utf8));
    assert!(b.long_string_refs == long);
    assert!(b.lengths_and_refcounts.len() == 2);
    assert!(b.lengths_and_refcounts[0] == (l0 as u32, rc[0]));
    assert!(b.lengths_and_refcounts[1] == (l1 as u32, rc[1]));
}
