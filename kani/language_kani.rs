// Kani harnesses for src/internal/language.rs (child module `vk`)
use super::*;

pub fn stub_format(_args: core::fmt::Arguments<'_>) -> String {
    String::new()
}

fn same_str(a: &str, b: &str) -> bool {
    a.as_ptr() == b.as_ptr() && a.len() == b.len()
}

fn is_und(t: &str) -> bool {
    let b = t.as_bytes();
    b.len() == 3 && b[0] == b'u' && b[1] == b'n' && b[2] == b'd'
}

// @harness name=lang_tag_matches_table kind=Pc tier=quick props=C17,C09 desc="for every u16 code c and every table position (i, j) (symbolic indices = universally quantified): from_code(c).code() == c; tag() does not panic; if language i is c's primary language then the tag is not 'und', it is sublanguage j's tag when j is c's sublanguage, and it is the bare language tag only if no listed sublanguage j matches; if the tag is 'und' then no language i matches"
#[kani::proof]
#[kani::unwind(10)]
#[kani::stub(alloc::fmt::format, stub_format)]
fn lang_tag_matches_table() {
    let code: u16 = kani::any();
    let lang = Language::from_code(code);
    assert!(lang.code() == code);
    let t = lang.tag();
    let lc = code & 0x3ff;
    let sc = code >> 10;
    let i: usize = kani::any();
    kani::assume(i < LANGUAGES.len());
    let (ilc, ilt, subs) = LANGUAGES[i];
    if ilc == lc {
        assert!(!is_und(t));
        if subs.is_empty() {
            assert!(same_str(t, ilt));
        } else {
            let j: usize = kani::any();
            kani::assume(j < subs.len());
            if subs[j].0 == sc {
                assert!(same_str(t, subs[j].1));
            }
            if same_str(t, ilt) {
                assert!(subs[j].0 != sc);
            }
        }
    }
    if is_und(t) {
        assert!(ilc != lc);
    }
    kani::cover!(ilc == lc && !subs.is_empty());
}

// (lang_unknown_is_und -- every code over a linear scan of the 117-entry table -- needed ~40 GB in CBMC and was
// removed; Language::tag is proved in Verus relative to the table, contracts/language.vt, with the table's
// sortedness checked by lang_table_sorted below)

// @harness name=lang_table_sorted kind=Pc tier=quick props=C17 desc="TABLE FACT used by the Verus proof of Language::tag (axiom_lang_table_sorted): for all positions a < b (symbolic = universally quantified) the language table is strictly increasing in its numeric key, and so is the sublanguage list of every language i -- the precondition under which std documents binary_search_by_key"
#[kani::proof]
#[kani::unwind(3)]
fn lang_table_sorted() {
    let a: usize = kani::any();
    let b: usize = kani::any();
    kani::assume(a < b && b < LANGUAGES.len());
    assert!(LANGUAGES[a].0 < LANGUAGES[b].0);
    let i: usize = kani::any();
    kani::assume(i < LANGUAGES.len());
    let subs = LANGUAGES[i].2;
    let c: usize = kani::any();
    let d: usize = kani::any();
    kani::assume(c < d && d < subs.len());
    assert!(subs[c].0 < subs[d].0);
    kani::cover!(d == 3);
}

// @harness name=lang_wellknown_ids kind=Pc tier=quick props=C17 desc="the Windows identifiers named in the statement carry their standard tags: 1033 en-US, 2057 en-GB, 1036 fr-FR, 3084 fr-CA, 1031 de-DE, 1041 ja-JP (checked on the bytes of the returned tag)"
#[kani::proof]
#[kani::unwind(10)]
#[kani::stub(alloc::fmt::format, stub_format)]
fn lang_wellknown_ids() {
    fn is(t: &str, e: &[u8; 5]) -> bool {
        let b = t.as_bytes();
        b.len() == 5 && b[0] == e[0] && b[1] == e[1] && b[2] == e[2] && b[3] == e[3] && b[4] == e[4]
    }
    { let l = Language::from_code(1033); assert!(is(l.tag(), b"en-US")); }
    { let l = Language::from_code(2057); assert!(is(l.tag(), b"en-GB")); }
    { let l = Language::from_code(1036); assert!(is(l.tag(), b"fr-FR")); }
    { let l = Language::from_code(3084); assert!(is(l.tag(), b"fr-CA")); }
    { let l = Language::from_code(1031); assert!(is(l.tag(), b"de-DE")); }
    { let l = Language::from_code(1041); assert!(is(l.tag(), b"ja-JP")); }
}


fn is_bytes(t: &str, e: &[u8]) -> bool {
    let b = t.as_bytes();
    if b.len() != e.len() {
        return false;
    }
    let mut i = 0;
    while i < e.len() {
        if b[i] != e[i] {
            return false;
        }
        i += 1;
    }
    true
}

// @harness name=lang_from_tag_en kind=Bk tier=quick props=C17 bound="the tags listed in the harness (from_tag builds a Vec of string slices per call; one call costs CBMC ~20-60 s, so the 360 table tags are not enumerated)" desc="from_tag: 'en-QQ' (known language, unknown region) maps to a code of language 9 whose tag is the bare 'en' (not a listed region such as en-CA); 'en-US' -> 1033; 'en' -> 9"
#[kani::proof]
#[kani::unwind(125)]
#[kani::stub(alloc::fmt::format, stub_format)]
fn lang_from_tag_en() {
    { let l = Language::from_tag("en-QQ"); assert!(l.code() & 0x3ff == 9); let t = l.tag(); assert!(is_bytes(t, b"en")); }
    { let l = Language::from_tag("en-US"); assert!(l.code() == 1033); }
    { let l = Language::from_tag("en"); assert!(l.code() == 9); }
}

// @harness name=lang_from_tag_fr kind=Bk tier=quick props=C17 bound="the tags listed in the harness (from_tag builds a Vec of string slices per call; one call costs CBMC ~20-60 s, so the 360 table tags are not enumerated)" desc="from_tag: 'fr-QQ' maps to language 12 with the bare tag 'fr' (not fr-CH etc.); 'fr-CA' -> 3084"
#[kani::proof]
#[kani::unwind(125)]
#[kani::stub(alloc::fmt::format, stub_format)]
fn lang_from_tag_fr() {
    { let l = Language::from_tag("fr-QQ"); assert!(l.code() & 0x3ff == 12); let t = l.tag(); assert!(is_bytes(t, b"fr")); }
    { let l = Language::from_tag("fr-CA"); assert!(l.code() == 3084); }
}

// @harness name=lang_from_tag_unknown kind=Bk tier=quick props=C17 bound="the tags listed in the harness (from_tag builds a Vec of string slices per call; one call costs CBMC ~20-60 s, so the 360 table tags are not enumerated)" desc="from_tag: an unknown language ('qq', 'qq-US') maps to the neutral language 0"
#[kani::proof]
#[kani::unwind(125)]
#[kani::stub(alloc::fmt::format, stub_format)]
fn lang_from_tag_unknown() {
    { let l = Language::from_tag("qq"); assert!(l.code() == 0); }
    { let l = Language::from_tag("qq-US"); assert!(l.code() == 0); }
}

// @harness name=lang_from_tag_ar_de kind=Bk tier=thorough props=C17 bound="the tags listed in the harness (from_tag builds a Vec of string slices per call; one call costs CBMC ~20-60 s, so the 360 table tags are not enumerated)" desc="from_tag: 'ar-QQ', 'de-QQ' map to the bare language; 'de-DE' -> 1031"
#[kani::proof]
#[kani::unwind(125)]
#[kani::stub(alloc::fmt::format, stub_format)]
fn lang_from_tag_ar_de() {
    { let l = Language::from_tag("ar-QQ"); assert!(l.code() & 0x3ff == 1); let t = l.tag(); assert!(is_bytes(t, b"ar")); }
    { let l = Language::from_tag("de-QQ"); assert!(l.code() & 0x3ff == 7); let t = l.tag(); assert!(is_bytes(t, b"de")); }
    { let l = Language::from_tag("de-DE"); assert!(l.code() == 1031); }
}

// @harness name=lang_from_tag_es_zh_ja kind=Bk tier=thorough props=C17 bound="the tags listed in the harness (from_tag builds a Vec of string slices per call; one call costs CBMC ~20-60 s, so the 360 table tags are not enumerated)" desc="from_tag: 'es-QQ', 'zh-QQ' map to the bare language; 'ja-JP' -> 1041"
#[kani::proof]
#[kani::unwind(125)]
#[kani::stub(alloc::fmt::format, stub_format)]
fn lang_from_tag_es_zh_ja() {
    { let l = Language::from_tag("es-QQ"); assert!(l.code() & 0x3ff == 10); let t = l.tag(); assert!(is_bytes(t, b"es")); }
    { let l = Language::from_tag("zh-QQ"); assert!(l.code() & 0x3ff == 4); let t = l.tag(); assert!(is_bytes(t, b"zh")); }
    { let l = Language::from_tag("ja-JP"); assert!(l.code() == 1041); }
}

// @harness name=lang_from_tag_prefix kind=Bk tier=quick props=C17 bound="the tags listed in the harness" desc="from_tag: a three-letter language whose first two letters are another language's tag is not confused with it ('arn' -> 0x7a, not 'ar'); an unknown language that merely starts with a known tag ('enx') maps to the neutral language 0"
#[kani::proof]
#[kani::unwind(125)]
#[kani::stub(alloc::fmt::format, stub_format)]
fn lang_from_tag_prefix() {
    { let l = Language::from_tag("arn"); assert!(l.code() == 0x7a); }
    { let l = Language::from_tag("enx"); assert!(l.code() == 0); }
}
