// Kani harnesses for src/internal/language.rs (child module `vk`)
use super::*;

/// linear-search specification of tag(), independent of binary_search_by_key
fn spec_tag(code: u16) -> &'static str {
    let lang = code & 0x3ff;
    let sub = code >> 10;
    let mut i = 0;
    while i < LANGUAGES.len() {
        let (lc, lt, subs) = LANGUAGES[i];
        if lc == lang {
            let mut j = 0;
            while j < subs.len() {
                if subs[j].0 == sub {
                    return subs[j].1;
                }
                j += 1;
            }
            return lt;
        }
        i += 1;
    }
    "und"
}

fn same_str(a: &str, b: &str) -> bool {
    a.as_ptr() == b.as_ptr() && a.len() == b.len()
}

// @harness name=lang_code_tag_total kind=Pc tier=quick props=C17,C09 desc="for every u16 code: from_code(c).code() == c; tag() returns without panicking and is exactly (same static string as) the linear-search result: sublanguage tag if listed, else the bare language tag, else 'und' (this also re-proves the sortedness binary_search_by_key relies on)"
#[kani::proof]
#[kani::unwind(140)]
fn lang_code_tag_total() {
    let code: u16 = kani::any();
    let lang = Language::from_code(code);
    assert!(lang.code() == code);
    let t = lang.tag();
    let s = spec_tag(code);
    assert!(same_str(t, s));
}
