// Kani harnesses for src/internal/table.rs (child module `vk`)
use super::*;
use crate::internal::column::ColumnType;
use crate::internal::stringpool::StringRef;

pub fn stub_format(_args: core::fmt::Arguments<'_>) -> String {
    String::new()
}

/// harness helper: take the Ok value of an io::Result without pulling the
/// Debug/Drop machinery of io::Error into the model (unwrap() would)
pub fn must<T>(r: std::io::Result<T>) -> T {
    match r {
        Ok(x) => x,
        Err(e) => {
            core::mem::forget(e);
            assert!(false, "expected Ok");
            kani::assume(false);
            unreachable!()
        }
    }
}

fn name_of(k: u8) -> &'static str {
    match k % 3 { 0 => "a", 1 => "b", _ => "c" }
}

// @harness name=table_index_for_column_name kind=Bk tier=quick props=C13 bound="tables of 1..=3 columns with names from {a,b,c} (duplicates allowed); looked-up name from {a,b,c,d}" desc="Table::index_for_column_name returns Some(i) exactly for the FIRST column named n, and None iff no column is named n -- the contract the Verus proof of Row::index / Ast::eval imports as trusted"
#[kani::proof]
#[kani::unwind(6)]
#[kani::stub(alloc::fmt::format, stub_format)]
fn table_index_for_column_name() {
    let n: usize = kani::any();
    kani::assume(n >= 1 && n <= 3);
    let k: [u8; 3] = [kani::any::<u8>() % 3, kani::any::<u8>() % 3, kani::any::<u8>() % 3];
    let mut columns = Vec::new();
    let mut i = 0;
    while i < n {
        columns.push(Column::build(name_of(k[i])).int16());
        i += 1;
    }
    let table = Table { name: String::new(), columns, long_string_refs: false };
    let q: u8 = kani::any::<u8>() % 4;
    let qn = if q == 3 { "d" } else { name_of(q) };
    let r = table.index_for_column_name(qn);
    // specification by explicit first-match search over the k's
    let mut first: Option<usize> = None;
    let mut j = n;
    while j > 0 {
        j -= 1;
        if q != 3 && k[j] == q {
            first = Some(j);
        }
    }
    assert!(r == first);
    core::mem::forget(table);
}

/// array-backed sink (no allocation, no io::Error construction on the happy path)
pub struct Sink { pub buf: [u8; 16], pub n: usize }
impl std::io::Write for Sink {
    fn write(&mut self, data: &[u8]) -> std::io::Result<usize> {
        let mut i = 0;
        while i < data.len() {
            if self.n >= 16 { return Err(std::io::Error::from(std::io::ErrorKind::WriteZero)); }
            self.buf[self.n] = data[i];
            self.n += 1;
            i += 1;
        }
        Ok(data.len())
    }
    fn flush(&mut self) -> std::io::Result<()> { Ok(()) }
}

// @harness name=table_rows_layout kind=Bk tier=thorough props=C01,C02,C08 bound="table with 2 columns (Int16, Int32) x 2 rows, all valid values" desc="Table::write_rows emits the cells column-major (all of column 1, then all of column 2) with the widths the column types dictate, offset-binary, and Table::read_rows of those bytes returns the same rows"
#[kani::proof]
#[kani::unwind(6)]
#[kani::stub(alloc::fmt::format, stub_format)]
fn table_rows_layout() {
    let columns = vec![Column::build("a").int16(), Column::build("b").int32()];
    let table = Table { name: String::new(), columns, long_string_refs: false };
    let a: [i32; 2] = kani::any();
    let b: [i32; 2] = kani::any();
    kani::assume(a[0] > i16::MIN as i32 && a[0] <= i16::MAX as i32 && a[1] > i16::MIN as i32 && a[1] <= i16::MAX as i32);
    kani::assume(b[0] > i32::MIN && b[1] > i32::MIN);
    let rows = vec![vec![ValueRef::Int(a[0]), ValueRef::Int(b[0])], vec![ValueRef::Int(a[1]), ValueRef::Int(b[1])]];
    let mut sink = Sink { buf: [0; 16], n: 0 };
    let r = table.write_rows(&mut sink, rows);
    assert!(r.is_ok());
    assert!(sink.n == 12);
    let w16 = |o: usize| u16::from_le_bytes([sink.buf[o], sink.buf[o + 1]]) as i32 - 0x8000;
    let w32 = |o: usize| (u32::from_le_bytes([sink.buf[o], sink.buf[o + 1], sink.buf[o + 2], sink.buf[o + 3]]) as i64 - 0x8000_0000i64) as i32;
    assert!(w16(0) == a[0] && w16(2) == a[1]);
    assert!(w32(4) == b[0] && w32(8) == b[1]);
    let back = must(table.read_rows(std::io::Cursor::new(&sink.buf[..12])));
    assert!(back.len() == 2);
    assert!(back[0][0] == ValueRef::Int(a[0]) && back[0][1] == ValueRef::Int(b[0]));
    assert!(back[1][0] == ValueRef::Int(a[1]) && back[1][1] == ValueRef::Int(b[1]));
    core::mem::forget(back);
    core::mem::forget(table);
}
