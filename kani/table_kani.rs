// Kani harnesses for src/internal/table.rs (child module `vk`)
use super::*;
use crate::internal::column::ColumnType;
use crate::internal::stringpool::StringRef;

pub fn stub_format(_args: core::fmt::Arguments<'_>) -> String {
    String::new()
}

/// harness helper: take the Ok value of an io::Result without pulling the
/// Debug/Drop machinery of io::Error into the model (unwrap() would)
pub fn must<T>(r: std::io::Result<T>) -> T {
    match r {
        Ok(x) => x,
        Err(e) => {
            core::mem::forget(e);
            assert!(false, "expected Ok");
            kani::assume(false);
            unreachable!()
        }
    }
}

fn name_of(k: u8) -> &'static str {
    match k % 3 { 0 => "a", 1 => "b", _ => "c" }
}

// @harness name=table_index_for_column_name kind=Bk tier=quick props=C13 bound="tables of 1..=3 columns with names from {a,b,c} (duplicates allowed); looked-up name from {a,b,c,d}" desc="Table::index_for_column_name returns Some(i) exactly for the FIRST column named n, and None iff no column is named n -- the contract the Verus proof of Row::index / Ast::eval imports as trusted"
#[kani::proof]
#[kani::unwind(6)]
#[kani::stub(alloc::fmt::format, stub_format)]
fn table_index_for_column_name() {
    let n: usize = kani::any();
    kani::assume(n >= 1 && n <= 3);
    let k: [u8; 3] = [kani::any::<u8>() % 3, kani::any::<u8>() % 3, kani::any::<u8>() % 3];
    let mut columns = Vec::new();
    let mut i = 0;
    while i < n {
        columns.push(Column::build(name_of(k[i])).int16());
        i += 1;
    }
    let table = Table { name: String::new(), columns, long_string_refs: false };
    let q: u8 = kani::any::<u8>() % 4;
    let qn = if q == 3 { "d" } else { name_of(q) };
    let r = table.index_for_column_name(qn);
    // specification by explicit first-match search over the k's
    let mut first: Option<usize> = None;
    let mut j = n;
    while j > 0 {
        j -= 1;
        if q != 3 && k[j] == q {
            first = Some(j);
        }
    }
    assert!(r == first);
    core::mem::forget(table);
}

/// array-backed sink (no allocation, no io::Error construction on the happy path)
pub struct Sink { pub buf: [u8; 16], pub n: usize }
impl std::io::Write for Sink {
    fn write(&mut self, data: &[u8]) -> std::io::Result<usize> {
        let mut i = 0;
        while i < data.len() {
            if self.n >= 16 { return Err(std::io::Error::from(std::io::ErrorKind::WriteZero)); }
            self.buf[self.n] = data[i];
            self.n += 1;
            i += 1;
        }
        Ok(data.len())
    }
    fn flush(&mut self) -> std::io::Result<()> { Ok(()) }
}

// (table_rows_layout, a bounded 2x2 harness, grew to > 40 GB in CBMC and was removed: Table::write_rows is proved
// in Verus, contracts/serial.vt; Table::read_rows is outside the verified set)
