// Kani harnesses for src/internal/streamname.rs (child module `vk`)
use super::*;

pub fn stub_format(_args: core::fmt::Arguments<'_>) -> String {
    String::new()
}

// @harness name=b64_inverse kind=Pc tier=quick props=C11,C02 desc="for every value v < 64: to_b64(from_b64(v)) == Some(v) and from_b64 does not trip char::from_u32().unwrap(); for every char c: to_b64(c) is Some(v) only for [0-9A-Za-z._], then v < 64 and from_b64(v) == c"
#[kani::proof]
#[kani::stub(alloc::fmt::format, stub_format)]
#[kani::unwind(3)]
fn b64_inverse() {
    let v: u32 = kani::any();
    if v < 64 {
        let c = from_b64(v);
        assert!(to_b64(c) == Some(v));
    }
    let c: char = kani::any();
    match to_b64(c) {
        Some(v) => {
            assert!(v < 64);
            assert!(from_b64(v) == c);
            assert!(c.is_ascii_alphanumeric() || c == '.' || c == '_');
        }
        None => assert!(!(c.is_ascii_alphanumeric() || c == '.' || c == '_')),
    }
}
