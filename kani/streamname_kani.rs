// Kani harnesses for src/internal/streamname.rs (child module `vk`)
use super::*;

pub fn stub_format(_args: core::fmt::Arguments<'_>) -> String {
    String::new()
}

// @harness name=b64_inverse kind=Pc tier=quick props=C11,C02 desc="for every value v < 64: to_b64(from_b64(v)) == Some(v) and from_b64 does not trip char::from_u32().unwrap(); for every char c: to_b64(c) is Some(v) only for [0-9A-Za-z._], then v < 64 and from_b64(v) == c"
#[kani::proof]
#[kani::stub(alloc::fmt::format, stub_format)]
#[kani::unwind(3)]
fn b64_inverse() {
    let v: u32 = kani::any();
    if v < 64 {
        let c = from_b64(v);
        assert!(to_b64(c) == Some(v));
    }
    let c: char = kani::any();
    match to_b64(c) {
        Some(v) => {
            assert!(v < 64);
            assert!(from_b64(v) == c);
            assert!(c.is_ascii_alphanumeric() || c == '.' || c == '_');
        }
        None => assert!(!(c.is_ascii_alphanumeric() || c == '.' || c == '_')),
    }
}

fn same(a: &str, b: &str) -> bool {
    let (x, y) = (a.as_bytes(), b.as_bytes());
    if x.len() != y.len() {
        return false;
    }
    let mut i = 0;
    while i < x.len() {
        if x[i] != y[i] {
            return false;
        }
        i += 1;
    }
    true
}

fn roundtrip(name: &str) {
    let e = encode(name, false);
    // the encoder never emits a packable ASCII character
    for c in e.chars() {
        assert!(to_b64(c).is_none());
    }
    let (d, is_table) = decode(&e);
    assert!(!is_table);
    assert!(same(&d, name));
}

// @harness name=streamname_fixed_a kind=Bk tier=quick props=C11,C02 bound="the names listed in the harness (symbolic Strings are unaffordable in CBMC)" desc="decode(encode(n)) == n and no packable character survives encoding, for names with an odd packable run followed by an unpackable character ('a b'), an even run ('ab c'), and a lone character"
#[kani::proof]
#[kani::unwind(12)]
#[kani::stub(alloc::fmt::format, stub_format)]
fn streamname_fixed_a() {
    roundtrip("a b");
    roundtrip("ab c");
    roundtrip("a");
}

// @harness name=streamname_fixed_b kind=Bk tier=thorough props=C11,C02 bound="the names listed in the harness" desc="as streamname_fixed_a for 'abc', 'a.b_c', a non-ASCII name, and an unpackable character first"
#[kani::proof]
#[kani::unwind(12)]
#[kani::stub(alloc::fmt::format, stub_format)]
fn streamname_fixed_b() {
    roundtrip("abc");
    roundtrip("a.b_c");
    roundtrip("\u{e9}a");
    roundtrip(" ab");
}
