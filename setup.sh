#!/bin/bash
# offline setup: build the replay crate once (path dependency on /repo) and warm the Kani dependency cache
set -e
cd "$(dirname "$0")"
mkdir -p .work evidence
cp -f /repo/Cargo.lock replay/Cargo.lock
( cd replay && CARGO_NET_OFFLINE=true CARGO_TARGET_DIR=/verif/.work/replay-target cargo build --offline -q ) || echo "replay crate did not build (checks still run; replays will be skipped)"
exit 0
