#!/bin/bash
# usage: seed_batch2.sh <dir under /tmp/wt2> ...   confirm + check each delivered round-2 seed
cd /verif
for p in "$@"; do
  for n in 1 2 3; do
    d=/tmp/wt2/$p/seeds/$n
    [ -f $d/patch.diff ] || continue
    prop=$(python3 -c "import json;print(json.load(open('$d/meta.json'))['property'])")
    name=$prop-r2-$p$n
    if [ ! -d /verif/seeded/$name ]; then python3 tools/confirm_seed.py $d $name 2>&1 | cut -c1-200; fi
    [ -d /verif/seeded/$name ] && python3 tools/seedtest.py /verif/seeded/$name 2>&1
  done
done
