#!/usr/bin/env python3
"""Regenerate MANIFEST.json from units.py (claims) and tools/manifest_text.py (prose)."""
import json, os, sys
V = os.path.dirname(os.path.dirname(os.path.abspath(__file__)))
sys.path.insert(0, V); sys.path.insert(0, os.path.join(V, "tools"))
import units, manifest_text as T
props = [json.loads(l)["id"] for l in open(os.path.join(V, "properties.jsonl"))]
checks = []
for pid in props:
    if pid in units.PROPS:
        t = T.CLAIMS[pid]
        checks.append({
            "property_id": pid,
            "quick_cmd": "./check %s --tier quick" % pid,
            "thorough_cmd": "./check %s --tier thorough" % pid,
            "evidence_file": "/verif/evidence/%s.json" % pid,
            "replay_cmd_template": "cat {path}",
            "engine": t.get("engine", "verus+kani"),
            "level_claimed": {"category": units.PROPS[pid].get("level", "proof"), "text": t["text"], "design_ref": t.get("design_ref", "DESIGN.md section 4")},
            "level_note": t["note"],
            "technique": t["technique"],
        })
na = [{"property_id": p, "reason": T.NOT_APPLICABLE.get(p, "no check built for this property in this revision")} for p in props if p not in units.PROPS]
m = {
    "version": 1,
    "setup_cmd": "./setup.sh",
    "hooks": {"guard": "kani", "enable": "no source hook in /repo: Kani harness modules are appended under #[cfg(kani)] to a scratch copy of the working tree on every run; Verus runs on items extracted from the working tree on every run", "baseline_off_cmd": "cd /repo && cargo test --workspace --no-fail-fast --offline", "source_commits": [], "add_only": True},
    "engines": [
        {"name": "verus", "path": "/verif/vx", "serves_properties": [p for p in props if p in units.PROPS and units.PROPS[p].get("verus")], "kind_free_text": "Verus 0.2026.09.13 on functions extracted mechanically from /repo on every run (contracts in /verif/contracts/*.vt)"},
        {"name": "kani", "path": "/verif/kx", "serves_properties": [p for p in props if p in units.PROPS], "kind_free_text": "Kani 0.68 / CBMC 6.11 harness modules (/verif/kani) compiled against a scratch copy of /repo's working tree"},
    ],
    "checks": checks,
    "not_applicable": na,
    "notes": T.NOTES,
}
json.dump(m, open(os.path.join(V, "MANIFEST.json"), "w"), indent=1)
print("claimed:", [c["property_id"] for c in checks])
