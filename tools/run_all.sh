#!/bin/bash
# run every claimed quick check on the clean tree and leave fresh evidence files
cd /verif
if [ -n "$(git -C /repo status --porcelain -- src)" ]; then echo "refusing: /repo/src is dirty"; exit 3; fi
rc=0
for p in $(python3 -c "import units; print(' '.join(sorted(units.PROPS)))"); do
  s=$(date +%s); out=$(./check $p --tier ${1:-quick}); r=$?; e=$(date +%s)
  echo "$p rc=$r $((e-s))s $(echo "$out" | tail -1)"
  [ $r -ne 0 ] && { rc=1; echo "$out" | grep -v "^OK  " | head -20; }
done
exit $rc
