#!/bin/bash
# usage: seed_batch3.sh <dir under /tmp/wt9> ...   confirm + check each delivered round-8 seed
cd /verif
for p in "$@"; do
  for n in 1 2 3 4 5; do
    d=/tmp/wt9/$p/seeds/$n
    [ -f $d/patch.diff ] || continue
    prop=$(python3 -c "import json;print(json.load(open('$d/meta.json'))['property'])")
    name=$prop-r8-$p$n
    if [ ! -d /verif/seeded/$name ]; then python3 tools/confirm_seed.py $d $name 2>&1 | cut -c1-200; fi
    [ -d /verif/seeded/$name ] && python3 tools/seedtest.py /verif/seeded/$name 2>&1
  done
done
