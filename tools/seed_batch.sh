#!/bin/bash
# usage: seed_batch.sh P1 P2 ...   confirm + check each delivered seed of those properties
cd /verif
for p in "$@"; do
  for n in 1 2 3; do
    d=/tmp/wt/$p/seeds/$n
    [ -f $d/patch.diff ] || continue
    if [ ! -d /verif/seeded/$p-$n ]; then python3 tools/confirm_seed.py $d $p-$n 2>&1 | cut -c1-200; fi
    [ -d /verif/seeded/$p-$n ] && python3 tools/seedtest.py /verif/seeded/$p-$n 2>&1
  done
done
