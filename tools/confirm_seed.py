#!/usr/bin/env python3
"""Independently confirm a delivered seed (patch.diff + demo.rs + meta.json) in a fresh
scratch worktree of /repo HEAD: (a) patch applies, (b) existing suite passes with it,
(c) demo fails with it, (d) demo passes without it.  On success copy it to
/verif/seeded/<name>/ with the confirmation record added to meta.json.
usage: tools/confirm_seed.py <delivered seed dir> <name>"""
import json, os, shutil, subprocess, sys, time
src, name = os.path.abspath(sys.argv[1]), sys.argv[2]
wt = "/tmp/seedconfirm/" + name
os.makedirs("/tmp/seedconfirm", exist_ok=True)
subprocess.run(["git", "-C", "/repo", "worktree", "remove", "--force", wt], capture_output=True)
subprocess.run(["git", "-C", "/repo", "worktree", "add", "-q", "--detach", wt, "HEAD"], check=True)
shutil.copy("/repo/Cargo.lock", wt)
env = dict(os.environ, CARGO_NET_OFFLINE="true", CARGO_TARGET_DIR="/tmp/seedconfirm/target")
def run(cmd):
    p = subprocess.run(cmd, shell=True, cwd=wt, env=env, capture_output=True, text=True)
    return p.returncode, (p.stdout + p.stderr)
rec = {}
ok = True
try:
    shutil.copy(os.path.join(src, "demo.rs"), os.path.join(wt, "tests", "seed_demo.rs"))
    rc, out = run("cargo test --offline --test seed_demo 2>&1 | tail -5")
    rec["demo_without_change"] = "pass" if "test result: ok" in out else "FAIL"
    rc, out = run("git apply %s" % os.path.join(src, "patch.diff"))
    rec["patch_applies"] = rc == 0
    rc, out = run("cargo test --offline --test seed_demo 2>&1 | tail -8")
    rec["demo_with_change"] = "fail" if ("FAILED" in out or "panicked" in out or "error" in out.lower()) and "test result: ok" not in out else "PASSES"
    os.remove(os.path.join(wt, "tests", "seed_demo.rs"))
    rc, out = run("cargo test --workspace --no-fail-fast --offline 2>&1 | grep -E '^test result|FAILED|^error' ")
    rec["suite_with_change"] = "pass" if ("FAILED" not in out and "error" not in out and out.count("test result: ok") >= 8) else "FAIL"
    rec["suite_summary"] = out.strip().splitlines()[:14]
    ok = rec["demo_without_change"] == "pass" and rec["patch_applies"] and rec["demo_with_change"] == "fail" and rec["suite_with_change"] == "pass"
finally:
    subprocess.run(["git", "-C", "/repo", "worktree", "remove", "--force", wt], capture_output=True)
print(name, "CONFIRMED" if ok else "NOT-CONFIRMED", json.dumps(rec)[:600])
if ok:
    dst = os.path.join("/verif/seeded", name)
    os.makedirs(dst, exist_ok=True)
    for f in ("patch.diff", "demo.rs"):
        shutil.copy(os.path.join(src, f), dst)
    meta = json.load(open(os.path.join(src, "meta.json")))
    meta["confirmed_by_main_session"] = rec
    meta["confirm_cmds"] = ["git worktree add <scratch> HEAD", "cargo test --offline --test seed_demo (without change: pass)", "git apply patch.diff", "cargo test --offline --test seed_demo (with change: fail)", "cargo test --workspace --no-fail-fast --offline (with change, demo removed: pass)"]
    json.dump(meta, open(os.path.join(dst, "meta.json"), "w"), indent=1)
sys.exit(0 if ok else 1)
