#!/usr/bin/env python3
"""Self-test by mutation: apply small operator/constant mutations to the bodies of
functions that are under a Verus contract, keep the mutants that still compile and
pass the repository's own test suite, and report whether the function's Verus group
still verifies (SURVIVED = a gap in the contract, or an equivalent mutant to triage).

usage: tools/mutate.py [--max N] [--only substring]      (not part of MANIFEST commands)
Works on a scratch worktree under /tmp/mutate; never touches /repo."""
import os, re, subprocess, sys, json, random, shutil, importlib.util, time

V = os.path.dirname(os.path.dirname(os.path.abspath(__file__)))
sys.path.insert(0, os.path.join(V, "vx"))
spec = importlib.util.spec_from_file_location("vrunner", os.path.join(V, "vx", "runner.py"))
vrunner = importlib.util.module_from_spec(spec); spec.loader.exec_module(vrunner)
import extract

TARGETS = [
    # (file, impl header or None, fn, group)
    ("src/internal/expr.rs", "UnOp", "eval", "expr"),
    ("src/internal/expr.rs", "BinOp", "eval", "expr"),
    ("src/internal/expr.rs", "Ast", "eval", "expr"),
    ("src/internal/expr.rs", "Expr", "unop", "expr"),
    ("src/internal/expr.rs", "Expr", "binop", "expr"),
    ("src/internal/expr.rs", "Ast", "format_with_precedence", "exprfmt"),
    ("src/internal/expr.rs", "BinOp", "precedence", "exprfmt"),
    ("src/internal/timestamp.rs", None, "timestamp_from_system_time", "timestamp"),
    ("src/internal/timestamp.rs", None, "system_time_from_timestamp", "timestamp"),
    ("src/internal/timestamp.rs", None, "duration_to_timestamp_delta", "timestamp"),
    ("src/internal/timestamp.rs", None, "timestamp_delta_to_duration", "timestamp"),
    ("src/internal/column.rs", "Column", "is_valid_value", "column"),
    ("src/internal/streamname.rs", None, "encode", "streamname"),
    ("src/internal/streamname.rs", None, "decode", "streamname"),
    ("src/internal/streamname.rs", None, "is_valid", "streamname"),
    ("src/internal/streamname.rs", None, "to_b64", "streamname"),
    ("src/internal/streamname.rs", None, "from_b64", "streamname"),
    ("src/internal/propset.rs", "PropertySet", "set", "propset"),
    ("src/internal/propset.rs", "PropertySet", "set_codepage", "propset"),
    ("src/internal/codepage.rs", "CodePage", "from_id", "propset"),
    ("src/internal/stringpool.rs", "StringPool", "decref", "pool"),
    ("src/internal/stringpool.rs", "StringPool", "get", "pool"),
    ("src/internal/stringpool.rs", "StringPool", "refcount", "pool"),
    ("src/internal/value.rs", "ValueRef", "create", "pool"),
    ("src/internal/stringpool.rs", "StringRef", "write", "serial"),
    ("src/internal/column.rs", "ColumnType", "write_value", "serial"),
    ("src/internal/table.rs", "Table", "write_rows", "serial"),
    ("src/internal/stringpool.rs", "StringPool", "write_pool", "serial"),
    ("src/internal/stringpool.rs", "StringPool", "write_data", "serial"),
    ("src/internal/propset.rs", "PropertyValue", "write", "serial"),
    ("src/internal/propset.rs", "PropertyValue", "encoded_size_including_padding", "serial"),
    ("src/internal/stringpool.rs", "StringRef", "read", "readers"),
    ("src/internal/column.rs", "ColumnType", "read_value", "readers"),
    ("src/internal/propset.rs", "PropertyValue", "read", "readers"),
    ("src/internal/stringpool.rs", "StringPoolBuilder", "read_from_pool", "readers"),
    ("src/internal/propset.rs", "PropertySet", "read", "readers"),
    ("src/internal/language.rs", "Language", "from_tag", "language"),
    ("src/internal/table.rs", "Table", "index_for_column_name", "expr"),
    ("src/internal/table.rs", "Table", "read_rows", "rows"),
    ("src/internal/language.rs", "Language", "tag", "language"),
    ("src/internal/codepage.rs", "CodePage", "encode", "codepage"),
    ("src/internal/codepage.rs", None, "ascii_decode", "codepage"),
    ("src/internal/codepage.rs", None, "ascii_encode", "propset"),
    ("src/internal/summary.rs", "SummaryInfo", "arch", "propset"),
    ("src/internal/summary.rs", "SummaryInfo", "set_arch", "propset"),
    ("src/internal/summary.rs", "SummaryInfo", "languages", "propset"),
    ("src/internal/summary.rs", "SummaryInfo", "set_languages", "propset"),
    ("src/internal/summary.rs", "SummaryInfo", "clear_languages", "propset"),
    ("src/internal/package.rs", "<F:Read+Write+Seek>Finish<F>forFinishImpl", "finish", "finish"),
    ("src/internal/package.rs", "<F:Read+Write+Seek>Package<F>", "flush", "finish"),
    ("src/internal/package.rs", "<F:Read+Write+Seek>Package<F>", "write_stream", "pkgstreams"),
    ("src/internal/package.rs", "<F:Read+Write+Seek>Package<F>", "remove_stream", "pkgstreams"),
    ("src/internal/package.rs", "<F:Read+Write+Seek>Package<F>", "remove_digital_signature", "pkgstreams"),
    ("src/internal/package.rs", "<F:Read+Seek>Package<F>", "read_stream", "pkgstreams"),
    ("src/internal/stream.rs", "<'a,F:'a>IteratorforStreams<'a,F>", "next", "streams"),
    ("src/internal/stringpool.rs", "StringPoolBuilder", "build_from_data", "readers"),
    ("src/internal/value.rs", "ValueRef", "to_value", "pool"),
    ("src/internal/value.rs", "ValueRef", "remove", "pool"),
    ("src/internal/category.rs", "Category", "validate", "category"),
    ("src/internal/summary.rs", "SummaryInfo", "read", "readers"),
    ("src/internal/summary.rs", "SummaryInfo", "new", "propset"),
    ("src/internal/summary.rs", "SummaryInfo", "uuid", "propset"),
    ("src/internal/summary.rs", "SummaryInfo", "set_uuid", "propset"),
    ("src/internal/propset.rs", "PropertySet", "write", "serial"),
    ("src/internal/package.rs", "<F:Read+Write+Seek>Package<F>", "create_table_with_name", "mktable"),
    ("src/internal/query.rs", "Insert", "exec", "execgate"),
    ("src/internal/query.rs", "Update", "exec", "execgate"),
]

OPS = [
    (r" <= ", " < "), (r" < ", " <= "), (r" >= ", " > "), (r" > ", " >= "),
    (r" == ", " != "), (r" != ", " == "),
    (r" \+ ", " - "), (r" - ", " + "), (r" && ", " || "), (r" \|\| ", " && "),
    (r" << ", " >> "), (r" >> ", " << "), (r" & ", " | "), (r" \| ", " & "),
    (r"\btrue\b", "false"), (r"\bfalse\b", "true"),
]


def fn_span(src, masked, header, name):
    for it in extract.list_items(src, masked, 0, len(src), 0):
        if header is None and it[0] == "fn" and it[1] == name:
            return it[2], it[3]
        if header is not None and it[0] == "impl" and re.sub(r"\s+", "", it[1]).endswith(header) and (" for " not in it[1] or "for" in header):
            b = extract.find_body_open(masked, it[4])
            for it2 in extract.list_items(src, masked, b + 1, it[3] - 1, 0):
                if it2[0] == "fn" and it2[1] == name:
                    return it2[2], it2[3]
    return None


def mutants_of(body):
    out = []
    # body only (after the first `{`)
    k = body.index("{")
    lines = body.split("\n")
    pos = 0
    for li, line in enumerate(lines):
        start = pos
        pos += len(line) + 1
        if start < k or line.strip().startswith("//") or "debug_assert" in line or "panic!" in line or "invalid_" in line:
            continue
        for pat, rep in OPS:
            for m in re.finditer(pat, line):
                new = line[:m.start()] + rep + line[m.end():]
                out.append(("L%d:%s->%s" % (li, pat.strip(), rep.strip()), "\n".join(lines[:li] + [new] + lines[li + 1:])))
        for m in re.finditer(r"(?<![\w.])(0x[0-9a-fA-F_]+|\d[\d_]*)(?![\w.])", line):
            lit = m.group(1)
            try:
                val = int(lit.replace("_", ""), 0)
            except ValueError:
                continue
            newlit = hex(val + 1) if lit.startswith("0x") else str(val + 1)
            new = line[:m.start()] + newlit + line[m.end():]
            out.append(("L%d:%s->%s" % (li, lit, newlit), "\n".join(lines[:li] + [new] + lines[li + 1:])))
    return out


def main():
    mx = 10**9
    only = None
    a = sys.argv[1:]
    while a:
        if a[0] == "--max":
            mx = int(a[1]); a = a[2:]
        elif a[0] == "--only":
            only = a[1]; a = a[2:]
        else:
            a = a[1:]
    wt = "/tmp/mutate/wt"
    os.makedirs("/tmp/mutate", exist_ok=True)
    subprocess.run(["git", "-C", "/repo", "worktree", "remove", "--force", wt], capture_output=True)
    subprocess.run(["git", "-C", "/repo", "worktree", "add", "-q", "--detach", wt, "HEAD"], check=True)
    shutil.copy("/repo/Cargo.lock", wt)
    env = dict(os.environ, CARGO_NET_OFFLINE="true", CARGO_TARGET_DIR="/tmp/mutate/target")
    vrunner.WORK = os.path.join(V, ".work", "vx-mutate")
    random.seed(1)
    results = []
    try:
        allm = []
        for (rel, header, fn, group) in TARGETS:
            if only and not any(o in fn or o == group for o in only.split(",")):
                continue
            src = open(os.path.join(wt, rel)).read()
            masked = extract.mask_source(src)
            sp = fn_span(src, masked, header, fn)
            if not sp:
                print("target not found", rel, header, fn)
                continue
            body = src[sp[0]:sp[1]]
            ms = mutants_of(body)
            random.shuffle(ms)
            for (desc, newbody) in ms[:6]:
                allm.append((rel, header, fn, group, desc, sp, newbody))
        random.shuffle(allm)
        for (rel, header, fn, group, desc, sp, newbody) in allm[:mx]:
            p = os.path.join(wt, rel)
            orig = open(p).read()
            open(p, "w").write(orig[:sp[0]] + newbody + orig[sp[1]:])
            t0 = time.time()
            c = subprocess.run("cargo test --workspace --offline -q 2>&1 | grep -E '^test result|error\\[|could not compile|FAILED|panicked' | head -30", shell=True, cwd=wt, env=env, capture_output=True, text=True).stdout
            if "FAILED" in c or "panicked" in c:
                verdict = "killed-by-suite"
            elif "error[" in c or "could not compile" in c or "test result" not in c:
                verdict = "does-not-compile"
            else:
                r = vrunner.run_group(group, wt)
                verdict = {"failed": "KILLED", "ok": "SURVIVED", "undecided": "undecided"}[r["status"]]
                if verdict == "KILLED":
                    verdict += " (" + ", ".join(sorted(set((d["function"] or "?").split("::")[-1] + ":" + d["message"][:30] for d in r["diags"] if d["kind"] == "semantic")))[:120] + ")"
                if verdict == "undecided":
                    verdict += " (" + (r.get("reason") or "")[:100] + ")"
            open(p, "w").write(orig)
            line = "%-28s %-34s %-22s %s" % (rel.split("/")[-1] + ":" + fn, desc, group, verdict)
            print(line, flush=True)
            results.append(line)
    finally:
        subprocess.run(["git", "-C", "/repo", "worktree", "remove", "--force", wt], capture_output=True)
        shutil.rmtree(vrunner.WORK, ignore_errors=True)
    n = len(results)
    k = len([r for r in results if "KILLED" in r])
    s = len([r for r in results if "SURVIVED" in r])
    print("mutants run: %d  killed by contracts: %d  survived: %d  (others: not compiling / killed by the suite / undecided)" % (n, k, s))


if __name__ == "__main__":
    main()
