NOTES = ("Contract-based deductive verification. exit 0 = all obligations discharged; exit 1 + VIOLATION line = an obligation failed "
         "with a semantic verdict; exit 2 + UNDECIDED line = tool limit / anchor lost / timeout (never an alarm). "
         "Bounded Kani harnesses (kind Bk) are reported under coverage.bounded and never counted as discharged.")

CLAIMS = {
    "C13": {
        "engine": "verus+kani",
        "technique": "Verus postconditions (relation un_ok/bin_ok/eval_ok taken from the statement) + Verus overflow/shift/division/index obligations on the extracted bodies of UnOp::eval, BinOp::eval, Ast::eval, Row::index; complete loop-free Kani harnesses over all i32 operands supply counterexamples",
        "text": "Unbounded proof, function by function, that evaluation never panics (overflow, shift range, division, column lookup under the stated precondition) and returns a value the statement allows, for all operand values and all expression trees (structural induction via decreases).",
        "note": "Trusted: derive(Clone/PartialEq/PartialOrd) semantics of Value (prelude value_derives.rs, guarded by a hash of the enum), String + &str concatenation shim, i32::wrapping_neg/wrapping_div specs, Table::index_for_column_name contract (body uses enumerate(); checked bounded by Kani). Not covered: the call sites of Expr::eval inside Select/Update/Delete/Join::exec (whether they establish the has-column precondition).",
    },
    "C18": {
        "technique": "Verus: exact arithmetic postconditions (spec functions T: time->ticks, B: ticks->time) on the extracted bodies of timestamp.rs, plus lemmas over T and B for resolution, idempotence, monotonicity and saturation; Kani complete harness for the 8-byte codec",
        "text": "Unbounded proof that the four conversion functions compute T and B exactly (all u64 ticks, all SystemTime values of the platform range) without overflow or panic, and that T/B satisfy the four clauses of the statement.",
        "note": "Trusted: std::time specs in prelude/time.rs (Duration::new/as_secs/subsec_nanos, SystemTime::duration_since/checked_add/checked_sub, SystemTimeError::duration, UNIX_EPOCH); SystemTime viewed as integer nanoseconds in an uninterpreted platform range containing 0; the 'within 100 ns' lemma assumes the platform range covers 1601..60056. Not covered: save/reopen beyond the 8-byte codec and the property-set entry (see C10).",
    },
    "C07": {
        "technique": "Verus postcondition r == valid_spec(column, value) on the extracted body of Column::is_valid_value, valid_spec written from the statement; Category::validate as an uninterpreted predicate",
        "text": "Unbounded proof that the value gate accepts exactly the values the statement calls valid (nullability, integer type ranges with the reserved minimum, declared range, string width in characters, enumeration membership, category predicate).",
        "note": "Trusted: Category::validate == cat_ok (uninterpreted): the category grammars and their panic-freedom are NOT verified (closure-taking str adaptors, parse, Uuid::parse_str are outside both verifiers). Trusted std specs: Chars::count, <[T]>::contains with String equality = character-sequence equality, String::len. Not covered: that Insert/Update::exec call the gate for every value and check arity; Value::from(Uuid)/From<&[Language]>.",
    },
    "C11": {
        "technique": "Verus: encode/decode proved equal to spec functions enc/dec written from the format description (loop invariants over the consumed prefix), is_valid proved equal to the statement's `accepted` predicate, and lemmas dec(enc(n)) == n, injectivity, no-special-name, stream-never-table over those specs; Kani complete harness for to_b64/from_b64",
        "text": "Unbounded proof (names of any length) of the stream-name codec: accepted names never collide or alias, never encode to a table or reserved name, decode inverts encode, no panic.",
        "note": "Trusted: Peekable<Chars> iterator-law axiom and next/peek specs, char classification specs, char::from_u32, str::starts_with(char), encode_utf16().count() shim (prelude chars.rs / strspec.rs); the cfb container treats an accepted encoded name as one root entry. Not covered: Streams::next filtering, read/write/remove_stream, remove_digital_signature, stream contents across reopen (cfb I/O).",
    },
    "C19": {
        "technique": "Verus: format_with_precedence proved to emit exactly show(ast, p) (ghost mirror using the statement's ladder), and lemma_show_denotes proves by structural induction that show(ast, p) has a derivation in the ladder grammar (explicit derivation trees) of level >= p whose tree is ast; top-level Display contract = exists derivation",
        "text": "Unbounded proof (all expression trees, all statements incl. nested joins) that the printed text of an expression, read with the ladder's precedence and left associativity, denotes the original tree, and that Delete/Insert/Update/Select/Join print exactly the text the project's query grammar assigns to them (same tables, columns, literal values, assignments, join structure).",
        "note": "Trusted: Formatter instantiated with a segment-recording sink (X4); Value's Display emits one opaque literal segment; each emitted segment is lexed as written; derivations of the stratified grammar are unique (textbook); keywords of the statement grammar delimit its parts. Not covered: string literals needing escapes (excluded by the statement).",
    },
    "C14": {
        "technique": "Kani complete harnesses: from_id/id inverse over all i32; encoding() pointer-equal to the encoding_rs static the identifier's documented name designates; Verus: from_id/id against the statement's identifier table",
        "text": "Complete (all identifiers, all 26 pages) proof of identifier lookup/reverse lookup and of the code-page -> table wiring.",
        "note": "Trusted: the encoding_rs tables are the Windows code pages and are lossless on representable characters (dependency data; the per-character law over all scalar values x 26 pages is NOT claimed); 28591 -> WINDOWS_1252 accepted. Not covered: the chunked encoder loop of CodePage::encode ('?' substitution across the 1024-byte refill) and decode.",
    },
    "C06": {
        "technique": "Kani complete harness over every column definition (all usize widths, all flag combinations): storable definitions round-trip through Column::bitfield / ColumnBuilder::with_bitfield and fit the Int16 catalog cell; unstorable ones are exactly the widths > 255; category names round-trip",
        "text": "Complete proof for the type word and category-name codec that a stored column definition reads back with the same type, width and flags, and that refusal (is_storable) hits only definitions the format cannot hold.",
        "note": "Not covered: that create_table_with_name consults is_storable and writes bitfield(); the _Validation row construction and re-derivation in Package::open (ranges, ';'-joined enumerations, key annotations); all cfb code.",
    },
    "C17": {
        "technique": "Kani complete harnesses over all 65,536 codes (tag() vs the table, with symbolic table indices as universal quantifiers), the well-known identifiers, and bounded harnesses calling from_tag on listed tags",
        "text": "Complete proof for from_code/code/tag over every code; bounded check (listed tags only) for from_tag including the unknown-region clause.",
        "note": "Trusted: std binary_search_by_key contract. from_tag is checked on a fixed list of tags only (one call costs CBMC 20-60 s): the full table and arbitrary tag strings are NOT covered; this part is labelled bounded and not counted as proved.",
    },
    "C10": {
        "technique": "Verus: PropertySet set/set_codepage/get/remove/codepage and 29 SummaryInfo setters/getters/clearers against a map view; PropertySet::write proved against the property-set layout (48-byte header, exact section size, (id, offset) table, every offset at its value's type tag, 4-byte alignment, flush) and PropertySet::read / PropertyValue::read proved against the same format for arbitrary bytes; PropertyValue::write emits exactly encoded_size_including_padding bytes in the code page in force; Kani complete harnesses cross-check the per-value obligations",
        "text": "Unbounded proof of the in-memory property map behaviour (any order of setters/clearers, frame, code page = the one last set incl. the signed 16-bit storage, creation time = T/B conversion) and of the saved stream's layout and its reader (any number of properties, any string lengths).",
        "note": "Trusted: vstd BTreeMap model; BTreeMap iteration order is a function of the map (one assume in prelude/btree.rs: std documents ascending key order); the code-page encoder/decoder are uninterpreted functions; Timestamp conversion contracts imported from group timestamp (proved there). Not covered: that reading back what was written yields the same set as ONE lemma (writer and reader are each proved against the format), arch/languages template split/merge, uuid, string setters' Into<String> conversion, save/reopen through cfb.",
    },
    "C01": {
        "technique": "Kani complete harnesses for each encode/decode pair (cells, string references, type word, property values, timestamps, code-page ids) + Verus proof of the pool reference accounting (decref, get, ValueRef::create/remove with the 'no live empty string' invariant) + bounded Kani for pool stream header/entries and incref",
        "text": "Proof that each codec pair the whole-history statement rests on is an identity on valid values (complete over value domains), and that the pool invariant needed for the pool stream to be an inverse pair holds. The whole-history statement itself is NOT decided.",
        "note": "Not covered: finisher/flush/drop logic, crash points, Package::open's reconstruction, save/reopen idempotence, streams, row layout (bounded harness in thorough tier) -- all need the cfb container. Assumed: cfb stores stream bytes faithfully. Trusted: StringPool::incref contract in the Verus group (checked bounded by Kani, 2 slots).",
    },
    "C02": {
        "technique": "Verus: each reader proved ALONE against a format specification for arbitrary input of any length (string references, cells, timestamps, property values incl. strings, the _StringPool stream incl. long-reference bit and long-string escape, whole property sets with arbitrary property order/offsets), streamname::decode against the format's decoder; Kani complete harnesses for the type word on every i32, code-page ids, category names",
        "text": "Unbounded proof that each reader decodes exactly what the format says, independently of the library's writers.",
        "note": "Trusted: the in-memory stream model VSource (a read succeeds iff enough bytes are left); code-page decoding is an uninterpreted total function; BTreeMap model of vstd. Not covered: the composition in Package::open, absent _Validation, Table::read_rows (closure in sum(), Seek), 'changes preserve untouched content' (exec / cfb).",
    },
    "C08": {
        "technique": "Kani complete harnesses of each writer against the format (offset-binary cells, reference widths incl. refusal above 16 bits, type mismatch is an error) + Verus proof of pool accounting: decref/create/remove adjust exactly one count, clear text at zero, leave other slots untouched, keep 'unused entries empty / no live empty string'",
        "text": "Proof of writer-side format conformance per cell and of exact reference accounting at the pool API, for pools of any size (Verus) with incref bounded (Kani).",
        "note": "Not covered: that Delete/Update::exec and drop_table release one reference per cell (read: drop_table does not -- out of reach), catalog tables, write_rows/write_pool stream layout beyond the bounded harnesses.",
    },
    "C09": {
        "technique": "Panic-freedom as proof obligations: Verus safety obligations (index, overflow, unwrap, slice, division) on the extracted bodies of every reader in reach for arbitrary input of any length (StringRef::read, read_value, Timestamp::read_from, PropertyValue::read, PropertySet::read, read_from_pool, build_from_data, StringPool::get/refcount, streamname::decode, timestamp conversion), plus Kani complete harnesses (type word, Language::tag over all codes)",
        "text": "Unbounded proof that the readers in reach return Ok or Err on every input and never panic.",
        "note": "Not covered: Package::open's unwrap()s on catalog cells (read: a null _Tables.Name panics), decref/incref preconditions at exec call sites, the FFI expect, allocation failure for huge declared lengths (verifiers model allocation as succeeding), Table::read_rows, hangs.",
    },
}

CLAIMS["C15"] = {
    "technique": "Verus postcondition `Ok ==> committed == bytes.len()` on the extracted bodies of Table::write_rows, StringPool::write_pool, write_data and PropertySet::write, with the generic writer instantiated by a sink that separates accepted from committed bytes and lets every call fail",
    "text": "Unbounded proof (any number of rows/columns/pool entries/properties, any failure point) that all four stream serializers report success only after a successful flush following their last write and propagate every writer error. This is the serializer-level part of the statement only.",
    "note": "Trusted: the VSink model of Write (prelude/sink.rs); X3b instantiation of the by-value writer with &mut VSink. NOT covered: FinishImpl::finish / Package::flush / into_inner propagation, user-held StreamWriters, failing reads/seeks, cfb itself -- the package-level statement is NOT decided.",
}

NOT_APPLICABLE = {
    "C03": "The relational semantics live entirely in Insert/Update/Delete/Select::exec; their bodies (cfb I/O + closures + iterator adaptors + BTreeMap<Vec<Value>,_>) are rejected by Verus and unaffordable in CBMC, and rewriting them would be proving a model. Only leaf facts (Row indexing, C13) are in reach and do not decide the property.",
    "C04": "'Nothing changed after an error' is an ordering property inside create_table_with_name, drop_table, the exec methods and the stream methods of Package; none can be constructed or parsed by either verifier; the frame ranges over the cfb container.",
    "C05": "Uniqueness/order of stored keys is established by the BTreeMap in Insert::exec and broken (read) by Update::exec; both out of reach. The per-cell validity part is decided under C07.",
    "C12": "Join semantics are the nested loops of Join::exec (iterator chains, Rc<Table> construction, recursive Select::exec over cfb); out of reach of both verifiers.",
    "C16": "Needs a write-counting medium under a real cfb::CompoundFile; Package cannot be built in Kani without executing cfb, and Verus has no view of the container.",
    "C20": "The limits are enforced (or not) in create_table_with_name, Insert::exec and the slot search of incref -- out of reach or beyond affordable unwinding; the limit checks in reach (StringRef::write at 16 bits, column width <= 255) are proved under C08 / C06.",
}
