NOTES = ("Contract-based deductive verification. exit 0 = all obligations discharged; exit 1 + VIOLATION line = an obligation failed "
         "with a semantic verdict; exit 2 + UNDECIDED line = tool limit / anchor lost / timeout (never an alarm). "
         "Bounded Kani harnesses (kind Bk) are reported under coverage.bounded and never counted as discharged.")

CLAIMS = {
    "C13": {
        "engine": "verus+kani",
        "technique": "Verus postconditions (relation un_ok/bin_ok/eval_ok taken from the statement) + Verus overflow/shift/division/index obligations on the extracted bodies of UnOp::eval, BinOp::eval, Ast::eval, Row::index; complete loop-free Kani harnesses over all i32 operands supply counterexamples",
        "text": "Unbounded proof, function by function, that evaluation never panics (overflow, shift range, division, column lookup under the stated precondition) and returns a value the statement allows, for all operand values and all expression trees (structural induction via decreases).",
        "note": "Trusted: derive(Clone/PartialEq/PartialOrd) semantics of Value (prelude value_derives.rs, guarded by a hash of the enum), String + &str concatenation shim, i32::wrapping_neg/wrapping_div specs, Table::index_for_column_name contract (body uses enumerate(); checked bounded by Kani). Not covered: the call sites of Expr::eval inside Select/Update/Delete/Join::exec (whether they establish the has-column precondition).",
    },
}

NOT_APPLICABLE = {
}
