#!/usr/bin/env python3
"""Self-test against false alarms: apply semantics-preserving edits to a scratch worktree
and require that no check reports a VIOLATION (exit 0 expected; exit 2 = UNDECIDED is
tolerated and reported -- it is not an alarm).  Not part of the MANIFEST commands.
usage: tools/harmless.py [--verus-only]"""
import os, re, subprocess, sys, shutil, importlib.util
V = os.path.dirname(os.path.dirname(os.path.abspath(__file__)))
sys.path.insert(0, V)

EDITS = [
    # (name, file, python regex, replacement, properties to check)
    ("rename locals in BinOp::eval", "src/internal/expr.rs", r"\bnum1\b", "lhs", ["C13"]),
    ("rename locals in BinOp::eval (2)", "src/internal/expr.rs", r"\bnum2\b", "rhs", ["C13"]),
    ("rename string locals in BinOp::eval", "src/internal/expr.rs", r"\bstr1\b", "left_text", ["C13"]),
    ("comment + blank lines in UnOp::eval", "src/internal/expr.rs", r"(            UnOp::BitNot => match arg \{)", r"            // bitwise complement\n\n\1", ["C13"]),
    ("reorder arms: Sub before Add", "src/internal/expr.rs",
     r"(            BinOp::Add => match \(arg1, arg2\) \{.*?\n            \},\n)(            BinOp::Sub => match \(arg1, arg2\) \{.*?\n            \},\n)", r"\2\1", ["C13"]),
    ("equivalent comparison at the epoch tick", "src/internal/timestamp.rs", r"if timestamp >= UNIX_EPOCH_TIMESTAMP", "if timestamp > UNIX_EPOCH_TIMESTAMP", ["C18"]),
    ("rename local in duration_to_timestamp_delta caller", "src/internal/timestamp.rs", r"\bdelta\b", "ticks", ["C18"]),
    ("reformat: split chained call", "src/internal/timestamp.rs", r"        \.saturating_mul\(10_000_000\)\n        \.saturating_add", "        .saturating_mul(10_000_000).saturating_add", ["C18"]),
    ("is_valid_value: swap the two independent string checks", "src/internal/column.rs",
     r"(                    if let Some\(category\) = self\.category \{\n.*?\n                    \}\n)(                    if !self\.enum_values\.is_empty\(\)\n.*?\n                    \}\n)", r"\2\1", ["C07"]),
    ("is_valid_value: explicit parentheses", "src/internal/column.rs", r"max_len == 0 \|\| string\.chars\(\)\.count\(\) <= max_len", "(max_len == 0) || (string.chars().count() <= max_len)", ["C07"]),
    ("decref: comment", "src/internal/stringpool.rs", r"(        \*refcount -= 1;)", r"        // one reference less\n\1", ["C08"]),
    ("get: flip the if", "src/internal/stringpool.rs",
     r"        if index < self\.strings\.len\(\) \{\n            self\.strings\[index\]\.0\.as_str\(\)\n        \} else \{\n            \"\"\n        \}",
     "        if index >= self.strings.len() {\n            \"\"\n        } else {\n            self.strings[index].0.as_str()\n        }", ["C09"]),
    ("write_pool: name the mask", "src/internal/stringpool.rs", r"\(length & 0xffff\) as u16", "(length & 0x0000_ffff) as u16", ["C08"]),
    ("from_tag: comment", "src/internal/language.rs", r"(        for &\(lang_code, lang_tag, sublangs\) in LANGUAGES\.iter\(\) \{)", r"        // linear search: the table is small\n\1", ["C17"]),
    ("set: comment", "src/internal/propset.rs", r"(        self\.properties\.insert\(property_name, property_value\);)", r"        // store the value\n\1", ["C10"]),
    ("format_with_precedence: rename local", "src/internal/expr.rs", r"\bop_prec\b", "level", ["C19"]),
    ("CodePage::encode: swap two independent statements", "src/internal/codepage.rs",
     r"(                total_read \+= read;\n)(                bytes\.extend_from_slice\(&buffer\[\.\.written\]\);\n)", r"\2\1", ["C14"]),
    ("CodePage::encode: reorder match arms", "src/internal/codepage.rs",
     r"(                    EncoderResult::InputEmpty => \{\n                        break;\n                    \}\n)(                    EncoderResult::OutputFull => \{\n                        continue;\n                    \}\n)", r"\2\1", ["C14"]),
    ("finish: rename the stream local", "src/internal/package.rs",
     r"(?s)(if package\.is_summary_info_modified \{\n\s*let )stream( = package.*?package\.summary_info\.write\()stream(\)\?;)", r"\1out\2out\3", ["C15"]),
    ("finish: comment", "src/internal/package.rs", r"(            package\.string_pool\.mark_unmodified\(\);)", r"            // both streams are on the medium now\n\1", ["C15"]),
    ("Language::tag: comment", "src/internal/language.rs", r"(        let lang_code = self\.code & LANG_MASK;)", r"        // primary language: low ten bits\n\1", ["C17"]),
    ("set_arch: rename local", "src/internal/summary.rs", r"\blangs\b", "language_part", ["C10"]),
    ("arch(): flip the if", "src/internal/summary.rs",
     r"                if arch\.is_empty\(\) \{\n                    None\n                \} else \{\n                    Some\(arch\)\n                \}",
     "                if !arch.is_empty() {\n                    Some(arch)\n                } else {\n                    None\n                }", ["C10"]),
    ("format_with_precedence: the +1 moved into a new pure helper method", "src/internal/expr.rs",
     r"(?s)arg2\.format_with_precedence\(formatter, op_prec \+ 1\)\?;(.*?)    fn precedence\(&self\) -> i32 \{",
     r"arg2.format_with_precedence(formatter, op_prec + op.rhs_bump())?;\1    fn rhs_bump(&self) -> i32 {\n        match *self {\n            _ => 1,\n        }\n    }\n\n    fn precedence(&self) -> i32 {", ["C19"]),
    ("write_rows: serialize into a Vec, then write_all + flush (restructured; UNDECIDED is the right answer)", "src/internal/table.rs",
     r"(?s)        for \(index, column\) in self\.columns\.iter\(\)\.enumerate\(\) \{\n            let coltype = column\.coltype\(\);\n            for row in rows\.iter\(\) \{\n                coltype\.write_value\(\n                    &mut writer,(.*?)        writer\.flush\(\)\?;\n        Ok\(\(\)\)",
     r"        let mut buffer = Vec::<u8>::new();\n        for (index, column) in self.columns.iter().enumerate() {\n            let coltype = column.coltype();\n            for row in rows.iter() {\n                coltype.write_value(\n                    &mut buffer,\1        writer.write_all(&buffer)?;\n        writer.flush()?;\n        Ok(())", ["C15", "C08"]),
    ("SummaryInfo::write: serialize into a Vec, then write_all + flush", "src/internal/summary.rs",
     r"    pub\(crate\) fn write<W: Write>\(&self, writer: W\) -> io::Result<\(\)> \{\n        self\.properties\.write\(writer\)\n    \}",
     "    pub(crate) fn write<W: Write>(&self, mut writer: W) -> io::Result<()> {\n        let mut buffer = Vec::<u8>::new();\n        self.properties.write(&mut buffer)?;\n        writer.write_all(&buffer)?;\n        writer.flush()\n    }", ["C15"]),
    ("encode (streamname): comment", "src/internal/streamname.rs", r"(    let mut chars = name\.chars\(\)\.peekable\(\);\n    while let)", r"    // greedy packing\n\1", ["C11"]),
]


def main():
    verus_only = "--verus-only" in sys.argv
    wt = "/tmp/harmless/wt"
    os.makedirs("/tmp/harmless", exist_ok=True)
    bad = 0
    for (name, rel, pat, rep, props) in EDITS:
        subprocess.run(["git", "-C", "/repo", "worktree", "remove", "--force", wt], capture_output=True)
        subprocess.run(["git", "-C", "/repo", "worktree", "add", "-f", "-q", "--detach", wt, "HEAD"], check=True)
        shutil.copy("/repo/Cargo.lock", wt)
        p = os.path.join(wt, rel)
        s = open(p).read()
        s2, n = re.subn(pat, rep, s, flags=re.S)
        if n == 0:
            print("EDIT-NOT-APPLICABLE %s" % name)
            continue
        open(p, "w").write(s2)
        env = dict(os.environ, CARGO_NET_OFFLINE="true", CARGO_TARGET_DIR="/tmp/harmless/target")
        c = subprocess.run("cargo test --workspace --offline -q 2>&1 | grep -E '^test result|error\\[|could not compile|FAILED|panicked' | head", shell=True, cwd=wt, env=env, capture_output=True, text=True).stdout
        if "FAILED" in c or "error[" in c or "could not compile" in c:
            print("EDIT-BREAKS-SUITE %s: %s" % (name, c[:200].replace("\n", " ")))
            continue
        for pid in props:
            env2 = dict(os.environ, VERIF_REPO=wt, VERIF_EVIDENCE_DIR="/tmp/harmless/ev", VERIF_WORK_TAG="harmless")
            if verus_only:
                env2["VERIF_SKIP_KANI"] = "1"
            r = subprocess.run([os.path.join(V, "check"), pid], cwd=V, env=env2, capture_output=True, text=True)
            tag = {0: "ok", 1: "FALSE-ALARM", 2: "undecided"}.get(r.returncode, "rc=%d" % r.returncode)
            if r.returncode == 1:
                bad += 1
            extra = ""
            if r.returncode != 0:
                extra = " | " + " ; ".join(l for l in r.stdout.splitlines() if l.startswith(("VIOLATION", "UNDECIDED property")))[:300]
            print("%-55s %s %s%s" % (name, pid, tag, extra), flush=True)
    subprocess.run(["git", "-C", "/repo", "worktree", "remove", "--force", wt], capture_output=True)
    for d in ("/tmp/harmless/ev", os.path.join(V, ".work", "vx-harmless"), os.path.join(V, ".work", "replays-harmless")):
        shutil.rmtree(d, ignore_errors=True)
    print("false alarms: %d" % bad)
    sys.exit(1 if bad else 0)


if __name__ == "__main__":
    main()
