#!/usr/bin/env python3
"""Run the checks relevant to a behaviour-preserving patch against a scratch worktree with the
patch applied.  exit 1 of a check == FALSE ALARM.  usage: tools/harmless_patch.py <dir with patch.diff + meta.json> [--full]
(--full also runs the Kani harnesses; default is the Verus part, where proof scripts can go stale)"""
import json, os, subprocess, sys, shutil, re
V = os.path.dirname(os.path.dirname(os.path.abspath(__file__)))
FILE_PROPS = {
    "expr.rs": ["C13", "C19"], "timestamp.rs": ["C18", "C10"], "column.rs": ["C07", "C01", "C02", "C08", "C09", "C06"],
    "stringpool.rs": ["C01", "C02", "C08", "C09", "C15", "C20"], "table.rs": ["C01", "C02", "C08", "C09", "C13", "C15", "C20"],
    "value.rs": ["C01", "C08", "C20", "C13"], "propset.rs": ["C10", "C01", "C02", "C09", "C15"], "summary.rs": ["C10", "C15"],
    "codepage.rs": ["C14", "C10"], "streamname.rs": ["C11", "C02", "C09", "C20"], "stream.rs": ["C11"],
    "package.rs": ["C15", "C11", "C01", "C20", "C06", "C09", "C08"], "language.rs": ["C17", "C09"], "query.rs": ["C19", "C07", "C09"], "category.rs": ["C07"],
}
sd = os.path.abspath(sys.argv[1])
full = "--full" in sys.argv
name = os.path.basename(os.path.dirname(sd)) + "-" + os.path.basename(sd) if os.path.basename(sd).isdigit() else os.path.basename(sd)
wt = "/tmp/harmlessp/" + name
os.makedirs("/tmp/harmlessp", exist_ok=True)
subprocess.run(["git", "-C", "/repo", "worktree", "remove", "--force", wt], capture_output=True)
subprocess.run(["git", "-C", "/repo", "worktree", "add", "-f", "-q", "--detach", wt, "HEAD"], check=True)
bad = 0
try:
    r = subprocess.run(["git", "-C", wt, "apply", os.path.join(sd, "patch.diff")], capture_output=True, text=True)
    if r.returncode != 0:
        print("HARMLESS %s PATCH-DOES-NOT-APPLY %s" % (name, r.stderr.strip()[:200])); sys.exit(3)
    shutil.copy("/repo/Cargo.lock", wt)
    env = dict(os.environ, CARGO_NET_OFFLINE="true", CARGO_TARGET_DIR="/tmp/harmlessp/target")
    c = subprocess.run("cargo test --workspace --offline -q 2>&1 | grep -E '^test result|error\\[|could not compile|FAILED|panicked' | head", shell=True, cwd=wt, env=env, capture_output=True, text=True).stdout
    if "FAILED" in c or "error[" in c or "could not compile" in c or "test result" not in c:
        print("HARMLESS %s BREAKS-THE-SUITE %s" % (name, c[:200].replace("\n", " "))); sys.exit(3)
    files = set(re.findall(r"^\+\+\+ b/src/internal/(\S+)", open(os.path.join(sd, "patch.diff")).read(), re.M))
    props = []
    for f in files:
        for p in FILE_PROPS.get(f, []):
            if p not in props:
                props.append(p)
    for p in props:
        env2 = dict(os.environ, VERIF_REPO=wt, VERIF_EVIDENCE_DIR="/tmp/harmlessp/ev-" + name, VERIF_WORK_TAG="hp-" + name)
        if not full:
            env2["VERIF_SKIP_KANI"] = "1"
        c = subprocess.run([os.path.join(V, "check"), p], cwd=V, env=env2, capture_output=True, text=True)
        tag = {0: "ok", 1: "FALSE-ALARM", 2: "undecided"}.get(c.returncode, "rc=%d" % c.returncode)
        if c.returncode == 1:
            bad += 1
        extra = ""
        if c.returncode != 0:
            extra = " | " + " ; ".join(l for l in c.stdout.splitlines() if l.startswith(("VIOLATION", "UNDECIDED property", "FAILED")))[:400]
        print("HARMLESS %-18s %s %s%s" % (name, p, tag, extra), flush=True)
finally:
    subprocess.run(["git", "-C", "/repo", "worktree", "remove", "--force", wt], capture_output=True)
    for d in ("/tmp/harmlessp/ev-" + name, os.path.join(V, ".work", "vx-hp-" + name), os.path.join(V, ".work", "replays-hp-" + name),
              os.path.join(V, ".work", "replay-hp-" + name), os.path.join(V, ".work", "replay-target-hp-" + name)):
        shutil.rmtree(d, ignore_errors=True)
sys.exit(1 if bad else 0)
