#!/usr/bin/env python3
"""Run the check of a seed's property against a scratch worktree of /repo with the
seed's patch applied (never touches /repo, never overwrites /verif/evidence).
usage: tools/seedtest.py <seed dir> [--tier quick]      (seed dir holds patch.diff + meta.json)
prints: SEED <dir> property=<id> rc=<exit code> caught=<yes|no|undecided> + the VIOLATION/UNDECIDED lines"""
import json, os, subprocess, sys, shutil, time
V = os.path.dirname(os.path.dirname(os.path.abspath(__file__)))
sd = os.path.abspath(sys.argv[1])
tier = sys.argv[3] if len(sys.argv) > 3 and sys.argv[2] == "--tier" else "quick"
meta = json.load(open(os.path.join(sd, "meta.json")))
pid = meta.get("property")
props = meta.get("also_check", []) + [pid]
tag = "seed-" + os.path.basename(os.path.dirname(sd) if os.path.basename(sd).isdigit() else sd) + "-" + os.path.basename(sd) + "-%d" % os.getpid()
wt = "/tmp/seedrun/" + tag
os.makedirs("/tmp/seedrun", exist_ok=True)
subprocess.run(["git", "-C", "/repo", "worktree", "add", "-q", "--detach", wt, "HEAD"], check=True)
try:
    r = subprocess.run(["git", "-C", wt, "apply", os.path.join(sd, "patch.diff")], capture_output=True, text=True)
    if r.returncode != 0:
        print("SEED %s property=%s PATCH-DOES-NOT-APPLY %s" % (sd, pid, r.stderr.strip()[:300]))
        sys.exit(3)
    for p in dict.fromkeys(props):
        env = dict(os.environ, VERIF_REPO=wt, VERIF_EVIDENCE_DIR="/tmp/seedrun/ev-" + tag, VERIF_WORK_TAG=tag)
        t0 = time.time()
        c = subprocess.run([os.path.join(V, "check"), p, "--tier", tier], cwd=V, env=env, capture_output=True, text=True)
        lines = [l for l in c.stdout.splitlines() if l.startswith(("VIOLATION", "UNDECIDED", "KNOWN", "FAILED", "OK property"))]
        caught = "yes" if c.returncode == 1 else ("undecided" if c.returncode == 2 else "no")
        print("SEED %s property=%s rc=%d caught=%s wall=%.0fs" % (sd, p, c.returncode, caught, time.time() - t0))
        for l in lines:
            print("    " + l[:300])
        if c.returncode not in (0, 1, 2):
            print(c.stdout[-1500:], c.stderr[-1500:])
finally:
    subprocess.run(["git", "-C", "/repo", "worktree", "remove", "--force", wt])
    shutil.rmtree("/tmp/seedrun/ev-" + tag, ignore_errors=True)
    shutil.rmtree(os.path.join(V, ".work", "vx-" + tag), ignore_errors=True)
    shutil.rmtree(os.path.join(V, ".work", "replays-" + tag), ignore_errors=True)
    shutil.rmtree(os.path.join(V, ".work", "replay-" + tag), ignore_errors=True)
    shutil.rmtree(os.path.join(V, ".work", "replay-target-" + tag), ignore_errors=True)
