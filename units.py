"""Which obligations decide which property.

verus: {group: [function names as Verus prints them (without the crate prefix)]}
       every listed function is one obligation (its contract + Verus' own
       safety obligations on the same body); the group is extracted from /repo
       and verified on every run.
kani : harnesses are declared next to their code in /verif/kani/*_kani.rs with
       `// @harness ... props=Cxx,...`; kind=Pc counts as proved, kind=Bk is a
       bounded stand-in and is reported separately.
pairs: verus function -> kani harness that can supply a concrete witness.
"""

PROPS = {
    "C13": {
        "level": "proof",
        "verus": {
            "expr": ["Value::from_bool", "Value::to_bool", "UnOp::eval", "BinOp::eval",
                     "Column::name", "Table::index_for_column_name", "Row::index", "Ast::eval",
                     "Expr::unop", "Expr::binop", "Expr::eval"],
        },
        "pairs": {"UnOp::eval": "c13_unop_total", "BinOp::eval": "c13_binop_total"},
    },
}

PROPS["C18"] = {
    "level": "proof",
    "verus": {
        "timestamp": ["duration_to_timestamp_delta", "timestamp_delta_to_duration", "timestamp_from_system_time",
                      "system_time_from_timestamp", "Timestamp::from_system_time", "Timestamp::to_system_time",
                      "lemma_resolution", "lemma_idempotent", "lemma_ticks_roundtrip", "lemma_monotonic",
                      "lemma_back_monotonic", "lemma_saturates"],
    },
    "assumptions": [
        "SystemTime is viewed as an integer number of nanoseconds from the Unix epoch inside an uninterpreted platform range [ST_MIN, ST_MAX] containing 0",
        "the 'within 100 ns' lemma is proved under platform_covers_window(): the platform's SystemTime can represent 1601-01-01 .. the last 64-bit tick (true for 64-bit Linux time_t)",
    ],
}

PROPS["C07"] = {
    "level": "proof",
    "verus": {"column": ["Column::is_valid_value"]},
    "assumptions": [
        "Column::is_valid_value is proved against valid_spec with Category::validate IMPORTED as r == cat_ok(category, string); that contract is proved in group category, where cat_ok is the documented grammar of each category",
        "group category: the real Category::validate is proved to answer, for EVERY string and without panicking (incl. the byte slice in the GUID arm), exactly the documented grammar: identifier, property (at most one leading '%'), upper/lower case, GUID (38 bytes, braces, no lower-case letter, the inside a UUID), version (at most four '.'-separated pieces, each a 16-bit number), language list (','-separated 16-bit numbers), cabinet ('#' + identifier, or 1..8 bytes then optionally the LAST '.' and at most 3 bytes), 16/32-bit integer text. TRUSTED: the std string calls are shims whose body is the original call and whose contract is stated in prelude/catshim.rs (chars().any, starts_with/contains with a closure or a char, strip_prefix, split -- a model of core::str::Split --, rsplitn(2,..).collect, split_once/rsplit_once, str slicing with its character-boundary precondition, Vec::reverse, len); std's integer parsers (parse::<i16|i32|u16>) and the uuid crate's parser are uninterpreted total predicates of the text, so WHICH digit strings are numbers is std's answer, not checked here; closures carry the contract 'result == own body' (rule X13)",
        "group execgate: the validation prefix of the real Insert::exec (up to, excluding, `let stream_name = table.stream_name();`) and of the real Update::exec (up to, excluding, `if let Some(ref expr) = self.condition {`); everything after the cut is an UNCONSTRAINED continuation (rule X14). Proved: an unknown table, a row with the wrong number of values, an unknown column, or ANY value with !valid_spec(column, value) is refused with an error before the container and the string pool are touched (both unchanged); and a statement whose every value is valid passes the validation (its result is the continuation's: duplicate keys, the row limit and I/O are decided there and are NOT covered). Column::is_valid_value is imported (r == valid_spec, proved in group column); Table::has_column / get_column are imported as a function col_index(table, name) (index_for_column_name is proved in group expr); tables.get(&name) is a shim (vstd has no ordering model for String keys)",
        "NOT covered: 'the values the library itself builds from a UUID or a non-empty language list are valid for the GUID and language categories' (needs the uuid crate's formatter)",
    ],
}

PROPS["C11"] = {
    "level": "proof",
    "verus": {
        "streamname": ["from_b64", "to_b64", "encode", "decode", "is_valid",
                       "lemma_b64_inverse_v", "lemma_b64_inverse_c", "lemma_dec_append", "lemma_dec_single",
                       "lemma_roundtrip", "lemma_injective", "lemma_enc_no_packable", "lemma_not_special",
                       "lemma_stream_not_table", "lemma_shift6", "lemma_dec_bits", "lemma_pack_bits"],
    },
    "assumptions": [
        "Peekable<Chars> obeys the iterator laws and yields exactly the remaining chars (trusted axiom axiom_peekable_chars_iter_laws and the next/peek specs in prelude/chars.rs)",
        "the cfb container compares/stores root entry names as given and interprets only '/' and '\\' as separators (so an accepted, separator-free encoded name is one root entry)",
        "Streams::next (group streams) on a model of cfb::Entries (a fixed sequence of (is_stream, name) directory entries): the listing yields, in order, exactly the entries that are streams, are none of the four special streams (names spelled out from the format, not taken from the code's constants) and do not decode to a table, each as its decoded name; streamname::decode is imported (proved in group streamname)",
        "Package::has_stream / read_stream / write_stream / remove_stream / remove_digital_signature (group pkgstreams) on the container model VComp (prelude/comp.rs: a set of stream names; create_stream hands out an EMPTY stream and adds the name, open_stream changes nothing, remove_stream removes exactly the name): a name that is not accepted, or a missing stream, is refused before the container is touched; success changes exactly the encoded name; write_stream starts on an empty stream; is_valid / encode are imported from group streamname. The content of streams and the real cfb directory are not covered",
    ],
}

PROPS["C14"] = {
    "level": "proof",
    "verus": {"propset": ["CodePage::from_id", "CodePage::id", "lemma_cp_roundtrip", "lemma_cp_of_id", "ascii_encode"],
              "codepage": ["CodePage::encode", "CodePage::decode", "ascii_decode", "lemma_ascii_pair", "lemma_enc_concat", "lemma_enc_split", "lemma_blen_split", "lemma_advance", "lemma_unmappable_last", "lemma_blen_nonneg"]},
    "assumptions": [
        "the encoding_rs tables ARE the Windows code pages their names designate and are self-inverse on representable characters (dependency data; the per-character law over 1,112,064 x 26 is NOT claimed)",
        "CodePage::encode (group codepage): the real refill loop is proved to produce enc_q(page, string) -- every character's encoding, or '?' for a character without one, concatenated, for strings of ANY length -- against an ASSUMED contract of one encoding_rs encoder step (prelude/encoder.rs: whole characters consumed, mappable ones written, stops with InputEmpty / OutputFull (>= 1 character consumed with a 1024-byte buffer) / Unmappable(c) with c consumed; read = UTF-8 bytes consumed; no encoder state between calls for the encodings used). `&string[total_read..]` carries its real precondition (a character boundary). CodePage::decode is NOT covered",
        "28591 (ISO-8859-1) -> WINDOWS_1252 is accepted: encoding_rs, the stated oracle, has no separate ISO-8859-1 table",
    ],
}

POOL_FNS = ["StringRef::number", "StringRef::index", "StringPool::get", "StringPool::refcount",
            "StringPool::decref", "ValueRef::create", "ValueRef::remove", "ValueRef::to_value"]
SUMMARY_FNS = ["PropertySet::codepage", "PropertySet::set_codepage", "PropertySet::get", "PropertySet::set",
               "PropertySet::remove", "CodePage::from_id", "CodePage::id", "lemma_cp_roundtrip", "lemma_i16_u16",
               "SummaryInfo::codepage", "SummaryInfo::set_codepage",
               "SummaryInfo::author", "SummaryInfo::set_author", "SummaryInfo::clear_author",
               "SummaryInfo::comments", "SummaryInfo::set_comments", "SummaryInfo::clear_comments",
               "SummaryInfo::creating_application", "SummaryInfo::set_creating_application", "SummaryInfo::clear_creating_application",
               "SummaryInfo::subject", "SummaryInfo::set_subject", "SummaryInfo::clear_subject",
               "SummaryInfo::title", "SummaryInfo::set_title", "SummaryInfo::clear_title",
               "SummaryInfo::creation_time", "SummaryInfo::set_creation_time", "SummaryInfo::clear_creation_time",
               "SummaryInfo::word_count", "SummaryInfo::set_word_count", "SummaryInfo::clear_word_count",
               "SummaryInfo::arch", "SummaryInfo::set_arch", "SummaryInfo::clear_arch",
               "SummaryInfo::languages", "SummaryInfo::set_languages", "SummaryInfo::clear_languages",
               "lemma_tpl_split", "lemma_before_no_semi", "lemma_after_set_arch", "lemma_after_set_languages",
               "lemma_join_step", "lemma_first_of", "lemma_first_of_is"]

PROPS["C10"] = {
    "level": "proof",
    "verus": {"propset": SUMMARY_FNS,
              "timestamp": ["timestamp_from_system_time", "system_time_from_timestamp",
                            "Timestamp::from_system_time", "Timestamp::to_system_time", "lemma_resolution"]},
    "assumptions": [
        "vstd's BTreeMap model (insert/get/remove on the map view)",
        "architecture / language list: the template text is `<arch>;<list>` split at the FIRST ';'. Proved on the real arch/set_arch/clear_arch/languages/set_languages/clear_languages; the std string calls are trusted shims whose body is the original expression (prelude/tplshim.rs, strsplit.rs): split_once(';').map_or(..), splitn(2,';').collect(), format!(\"{};{}\"), format!(\"{}\", u16), and the list parser split(',').filter_map(parse).map(from_code).collect() with ONE assumed std fact: a list of u16 printed in decimal and joined by ',' parses back to the same list (axiom_parse_join)",
        "set_arch precondition of the get-after-set lemma: the architecture text contains no ';' (with a ';' in it the text after it is read back as language list -- the format has no escape; not claimed)",
        "string setters generic in S: Into<String> are verified at S = String (rule X3s: `.into()` is the identity; a &str caller goes through std's String::from)",
        "uuid / set_uuid / clear_uuid: proved with full frame (exactly property 9 changes, to the braced upper-cased text of the UUID; the getter parses the stored text with every leading '{' and trailing '}' trimmed); the uuid crate is a model (prelude/uuidshim.rs: opaque value, uninterpreted formatter and parser) and 'the UUID reads back' rests on ONE assumed fact about that crate (axiom_uuid_roundtrip)",
    ],
}

PROPS["C06"] = {
    "level": "proof",
    "verus": {},
    "assumptions": [
        "group mktable also decides the enumeration: Column::has_storable_enum_values (the real loop) == 'no value contains the separator ';' and the list is not the lone empty string' -- what the one-cell, ';'-joined, empty-is-null representation in _Validation.Set can hold -- and create_table_with_name refuses every definition that fails it (found and fixed: D21, such definitions were accepted and reopened altered). That create_table joins with ';' and Package::open splits at ';' is read from the code (cfb-level, not covered): the clause states the representation, it does not prove the round trip",
        "group mktable: Package::create_table_with_name refuses, before touching the package, every definition with a column that is_storable() rejects (string width above 255) -- proved on the real checks of the function (its body up to the existence check; the rest is an unconstrained continuation, rule X14)",
        "that create_table_with_name writes Column::bitfield() into _Columns.Type and that Package::open passes that word to with_bitfield are call sites in cfb-level code, NOT covered",
        "the _Validation row construction / re-derivation (ranges, enumerations joined by ';', key annotations) is NOT covered",
    ],
}

PROPS["C17"] = {
    "level": "proof",
    "verus": {"language": ["Language::new", "Language::from_code", "Language::code", "Language::from_tag", "Language::tag"]},
    "assumptions": [
        "Language::tag is proved (Verus, all 65536 codes) RELATIVE to the table: 'und' when no entry has the code's low 10 bits, else the listed sublanguage's tag for the high 6 bits, else the bare language tag. Trusted: std's binary_search_by_key on a strictly sorted slice returns Ok(i) with key(i) == target, Err only when the target is absent (shim vx_bsearch_key0); the strict sortedness of the language table and of every sublanguage list is checked on the real table by kani:lang_table_sorted (complete) and enters the Verus proof as axiom_lang_table_sorted",
        "from_tag is proved (Verus, all tag strings) RELATIVE to the table: language = first entry whose tag equals the part before the first '-', region = first sublanguage whose tag equals the whole tag, else that language's neutral code, else 0. That every table tag maps to ITS OWN code additionally needs the table facts 'tags are unique' and 'a sublanguage tag starts with its language tag + \"-\"' (the repository's own unit tests lang_tags_are_unique / sublang_tags_are_unique / sublang_tags_start_with_lang_tag check them; not re-proved here)",
        "trusted shims: LANGUAGES reached through vx_languages(), tag.splitn(2,'-').collect() through vx_splitn2 (prelude/langtable.rs); the debug_assert in Language::new is dropped (x8drop) because it depends on table contents",
    ],
}

PROPS["C01"] = {
    "level": "proof",
    "verus": {"pool": POOL_FNS},
    "assumptions": [
        "row streams (table data): Table::write_rows is proved to store every valid cell (i, c) as the format's bytes at n*width(columns < c) + i*width(c) (group serial), Table::read_rows to read exactly that cell back for any stream (group rows), and lemma_rows_pair / lemma_cell_pair (group rows, over the shared writer-format text prelude/cellfmt.rs) that the two formats are inverse: for any table with at least one column, any number of rows and any valid cell values, what write_rows stores read_rows returns",
        "only the encode/decode pairs the whole-history statement rests on are decided, plus the save step itself on a container model (group finish: FinishImpl::finish / Package::flush leave no part marked modified on Ok and clear a mark only with a completed write); drop logic, crash points, Package::open reconstruction, save/reopen idempotence and streams need the cfb container and are NOT covered",
        "cfb stores and returns stream bytes faithfully",
        "StringPool::incref is a trusted contract in the Verus group (iter_mut().enumerate()); checked bounded by kani:pool_incref_2slots",
    ],
}

PROPS["C02"] = {
    "level": "proof",
    "verus": {"streamname": ["from_b64", "decode", "lemma_dec_bits"]},
    "assumptions": [
        "readers are checked one by one against format specs written in the templates; the composition in Package::open, absent _Validation, and 'changes preserve untouched content' (exec / cfb) are NOT covered",
        "Table::read_rows (group rows): for an arbitrary stream, the row count is the stream length divided by the row width, a stream of more than 65536 rows is refused and NOTHING else is, cell (i, c) of the result is the column-major cell of the stream; assumes a 64-bit usize (the count is computed in u64 and cast) and the in-memory stream model (seek to the end / rewind cannot fail); read_value / width contracts are imported from groups readers / serial",
    ],
}

PROPS["C08"] = {
    "level": "proof",
    "verus": {"pool": POOL_FNS},
    "assumptions": [
        "group droptbl (rule X14): the prefix of Package::drop_table -- its checks, the deletion of the table's rows, the removal of its stream -- with everything after it (the catalog rows, the tables map) an unconstrained continuation that may only be ENTERED with the cells of the table's rows released (a ghost log of released cells; found and fixed: D24, the stream was removed without releasing anything). TRUSTED, read from the code and not verified: Package::delete_rows(Delete::from(name)) -- Delete::exec is outside the subset -- releases every cell of every row of that table's stream and nothing else; Table::stream_name / is_valid_name are functions of the name; the tables map is keyed by the tables' own names",
        "that Delete/Update::exec call ValueRef::remove once per released cell is NOT covered; catalog-table consistency is NOT covered",
        "StringPool::incref is a trusted contract in the Verus group; checked bounded by kani:pool_incref_2slots",
    ],
}

PROPS["C09"] = {
    "level": "proof",
    "verus": {"pool": ["StringRef::number", "StringRef::index", "StringPool::get", "StringPool::refcount"],
              "timestamp": ["system_time_from_timestamp", "timestamp_delta_to_duration"],
              "streamname": ["decode", "from_b64"]},
    "assumptions": [
        "only the readers in reach are decided (cell, reference, type word, pool header/data, property values, whole row streams via Table::read_rows); allocation of the row vectors is modelled as succeeding (at most 65536 rows); exec call sites, the FFI expect, and hangs/aborts from huge allocation requests are NOT covered",
        "group joincond (rule X15): two BLOCKS of Join::exec -- for the inner and for the left join, the statements from the validation of the condition's column names through the nested loops that evaluate the condition on every pair of rows -- extracted as functions. Proved: no block panics; in particular the precondition of Expr::eval (the row has every column the expression names -- what C13's proof of eval assumes) holds at its call site, because a condition naming a column the joined table lacks is refused first (found and fixed: D23, the condition was evaluated unchecked and select_rows panicked). Assumed: the joined table has the columns of both sides and every input row has its table's number of cells (block preconditions; established by code outside the blocks); Expr::column_names returns the names eval looks up (an uninterpreted set shared by the two imported contracts); HashSet iteration, the chain/cloned/collect and map/collect expressions are shims",
        "group opencat (rule X15): nine BLOCKS of statements of Package::open -- the bodies of the loops that read _Tables, _Columns and _Validation, and the parts of the column-construction loop that read the Nullable flag, the value range, the foreign key, the category and the enumeration (Set: re-derived as ALL pieces of the stored text between the ';'s, in order) -- are extracted as functions whose parameters (the block's free variables) are declared in the template; everything else of Package::open is dropped. Proved: no block panics (no unwrap on a null cell, no index out of range) for any row with the table's number of cells, and a null cell in a place that needs a value is an error (found and fixed: D20, the cells were unwrapped). Assumed about a row: one cell per column, and in integer / string columns an integer-or-null / string-or-null cell (what Table::read_rows and the cell readers are proved to hand out: groups rows, readers); ValueRef::to_value is imported (group pool); ColumnBuilder::nullable / range / foreign_key are opaque stubs; HashMap / HashSet calls are vstd's. The column-number completeness checks and the rest of Package::open are NOT covered; parse::<Category>() and split(';').collect() are shims",
    ],
}

PROPS["C19"] = {
    "level": "proof",
    "verus": {"exprfmt": ["BinOp::precedence", "Ast::format_with_precedence", "Ast::fmt", "Expr::fmt", "lemma_show_denotes"]},
    "assumptions": [
        "fmt::Formatter is instantiated with a sink that records one text segment per write_str call; each segment is lexed as written",
        "Value's Display impl emits one literal segment (uninterpreted text); string literals needing escapes are excluded by the statement",
        "derivations of the stratified, left-associative ladder grammar are unique (standard fact), so 'has a derivation whose tree is t' means 'is read as t'",
        "statements: Display of Delete/Insert/Update/Select/Join is proved to emit exactly the text the project's query grammar assigns to the statement (keywords delimit every part); the expression parts are the text proved in group exprfmt (imported contract Expr::fmt); Value's Display is one opaque literal segment",
    ],
}

SERIAL_FNS = ["lemma_pool_bytes_is_pf", "StringRef::write", "ColumnType::write_value", "ColumnType::width", "Column::coltype",
              "Table::write_rows", "StringPool::write_pool", "StringPool::write_data",
              "lemma_offset16", "lemma_offset32", "lemma_ref_split", "lemma_row_width_nonneg", "lemma_row_width_mono",
              "lemma_prefix_keeps"]
PROPS["C01"]["verus"]["serial"] = SERIAL_FNS
PROPS["C08"]["verus"]["serial"] = SERIAL_FNS

PROPS["C10"]["verus"]["readers"] = ["vx_read_whole", "SummaryInfo::read", "PropertySet::format_identifier", "PropertyValue::read", "PropertySet::read", "PropertyValue::minimum_version", "Timestamp::read_from",
                                    "lemma_pv_pair", "lemma_pv_pair_small", "lemma_pv_pair_i1", "lemma_pv_pair_i2", "lemma_pv_pair_str", "lemma_lpstr_layout", "lemma_pv_pair_time", "lemma_le32_rt", "lemma_le16_rt", "lemma_u64_halves", "lemma_i16_rt", "lemma_i32_rt", "lemma_i8_rt"]
PROPS["C19"]["verus"]["queryfmt"] = ["Delete::fmt", "Insert::fmt", "Update::fmt", "Join::fmt", "Select::format_for_join", "Select::fmt"]
PROPS["C06"]["verus"]["mktable"] = ["Package::create_table_with_name", "Column::is_storable", "Column::has_storable_enum_values"]
PROPS["C06"]["verus"]["opencat"] = ["Package::vx_open_set_cell"]
PROPS["C07"]["verus"]["execgate"] = ["Insert::exec", "Update::exec", "Table::columns"]
PROPS["C07"]["verus"]["category"] = ["Category::validate", "lemma_blen_nonneg", "lemma_blen_empty", "lemma_blen_ends", "lemma_last_of"]
PROPS["C10"]["verus"]["propset"] = SUMMARY_FNS + ["lemma_in_step_set_codepage", "lemma_in_step_insert", "lemma_in_step_remove",
                                              "PropertySet::new", "SummaryInfo::new", "SummaryInfo::uuid", "SummaryInfo::set_uuid", "SummaryInfo::clear_uuid", "lemma_uuid_after_set"]
PROPS["C10"]["verus"]["pspair"] = ["theorem_save_reopen", "lemma_ps_pair", "lemma_ps_cp", "lemma_ps_entry", "lemma_ps_header", "lemma_tab_at",
                                   "lemma_le32_at", "lemma_es_upto_mono", "lemma_in_step_entries", "lemma_read_in_step", "lemma_written_witness", "lemma_pair_witness",
                                   "lemma_pv_pair", "lemma_pv_pair_small", "lemma_pv_pair_i1", "lemma_pv_pair_i2", "lemma_pv_pair_str", "lemma_lpstr_layout", "lemma_pv_pair_time"]
PROPS["C10"]["verus"]["serial"] = ["vx_write_from_start", "lemma_upto_same", "lemma_header_tail", "PropertyValue::encoded_size_including_padding", "PropertyValue::write", "Timestamp::write_to", "lemma_pad",
                                    "PropertySet::write", "PropertyValue::minimum_version", "PropertyFormatVersion::version_number",
                                    "lemma_off_aligned", "lemma_pad4_mod", "lemma_size_nonneg", "lemma_size_mono", "lemma_append_keeps", "lemma_prefix_keeps", "vx_btree_iter"]

PROPS["C15"] = {
    "level": "proof",
    "verus": {"serial": ["Table::write_rows", "StringPool::write_pool", "StringPool::write_data", "PropertySet::write",
                         "PropertyValue::write", "ColumnType::write_value", "StringRef::write", "SummaryInfo::write"],
              "finish": ["FinishImpl::finish", "StringPool::is_modified", "StringPool::mark_unmodified",
                         "Package::flush", "Package::set_finisher", "Package::comp_mut", "Package::drop"]},
    "assumptions": [
        "the writer is modelled by VSink (prelude/sink.rs): bytes accepted vs bytes known committed; only a successful flush() commits; any call may fail -- this is what the documented Write contract lets generic code assume about cfb::Stream, whose Drop discards the result of its final flush",
        "decided: each of the four serializers (write_rows, write_pool, write_data, PropertySet::write) and the forwarder SummaryInfo::write returns Ok only after a successful flush that follows its last write, and propagates every writer error it sees",
        "decided (group finish): FinishImpl::finish on the model container VComp/VStream (prelude/comp.rs, rule X3c): it returns Ok only when no part is left marked modified, and a modified mark is cleared -- on ANY return path -- only together with a completed write of that part: the stream was handed to a serializer that returned Ok, or everything written to it was flushed successfully before its scope ended (the implicit drop is made explicit by rule X11). Package is reduced to the four fields finish touches (X10)",
        "imported into group finish without re-proof: the serializer contracts of group serial ('Ok only after flush'), stated as stream_done(id) -- a timeless predicate over stream ids, sound because an id is handed out once and a stream is consumed once; the size precondition ps_fits of PropertySet::write (section size fits u32) is not re-established by finish",
        "decided (group finish): Package::flush returns Ok only when the pending finisher (if any) ran successfully and CompoundFile::flush succeeded; Box<dyn Finish<F>> is read as Box<FinishImpl> (closed world: the private trait has one implementor)",
        "decided for READ faults (groups readers, rows): the source model VSource distinguishes the end of the data (an error of kind UnexpectedEof) from a failure of the medium (`failed()`); every reader under contract returns Err when the medium failed during the call (found and fixed: read_from_pool took any error for the end of the pool), and returns Ok whenever the bytes suffice and no fault occurs; seek faults are modelled the same way",
        "NOT covered: into_inner / Drop, the invariant 'a modified part implies a pending finisher' (established by the mutating API methods), the table-stream call sites in query.rs and create_table (write_rows is handed the stream by value there too, but those functions are outside the extractable subset), user-held StreamWriters, read/seek faults, the cfb container itself",
    ],
}

READER_FNS = ["StringRef::read", "ColumnType::read_value", "Timestamp::read_from", "PropertyValue::read",
              "StringPoolBuilder::read_from_pool", "StringPoolBuilder::build_from_data",
              "PropertyValue::minimum_version", "PropertySet::read", "lemma_data_off_nonneg",
              "lemma_ref_join", "lemma_unoffset16", "lemma_unoffset32", "lemma_zero32", "lemma_header_bits",
              "lemma_parse_live_nonempty", "lemma_long_positive"]
PROPS["C02"]["verus"]["readers"] = READER_FNS
PROPS["C09"]["verus"]["readers"] = READER_FNS
PROPS["C11"]["verus"]["streams"] = ["Streams::next"]
PROPS["C11"]["verus"]["pkgstreams"] = ["Package::has_stream", "Package::read_stream", "Package::write_stream", "Package::remove_stream",
                                       "Package::remove_digital_signature", "Package::comp", "Package::comp_mut", "StreamWriter::new", "StreamReader::new"]
FAULT_PROBES = {fn: ["faults"] for fn in ["Table::write_rows", "StringPool::write_pool", "StringPool::write_data", "PropertySet::write",
                                            "SummaryInfo::write", "FinishImpl::finish", "Package::flush"]}
PROPS["C15"]["probes"] = dict(FAULT_PROBES, **{fn: ["readfaults"] for fn in ["StringPoolBuilder::read_from_pool", "StringPoolBuilder::build_from_data",
                                                                                "Table::read_rows", "PropertySet::read", "PropertyValue::read", "ColumnType::read_value", "StringRef::read"]})
PROPS["C15"]["verus"]["readers"] = ["StringRef::read", "ColumnType::read_value", "Timestamp::read_from", "PropertyValue::read", "StringPoolBuilder::read_from_pool",
                                    "StringPoolBuilder::build_from_data", "PropertySet::read"]
PROPS["C15"]["verus"]["rows"] = ["Table::read_rows"]
OPENCAT_BLOCKS = ["Package::vx_open_tables_row", "Package::vx_open_columns_row_name", "Package::vx_open_columns_row_cells", "Package::vx_open_validation_row",
                  "Package::vx_open_nullable_cell", "Package::vx_open_range_cells", "Package::vx_open_key_cells", "Package::vx_open_category_cell", "Package::vx_open_set_cell"]
PROPS["C09"]["verus"]["opencat"] = OPENCAT_BLOCKS + ["catalog_str", "catalog_int", "Value::as_str", "Value::as_int", "Value::is_null"]
PROPS["C09"]["verus"]["joincond"] = ["Join::vx_join_inner_rows", "Join::vx_join_left_rows", "Value::to_bool"]
PROPS["C09"]["probes"] = dict({b: ["catalognull"] for b in OPENCAT_BLOCKS}, **{"Join::vx_join_inner_rows": ["joincol"], "Join::vx_join_left_rows": ["joincol"], "StringPoolBuilder::build_from_data": ["zerorc"], "StringPool::decref": ["dangling"], "ValueRef::remove": ["dangling"]})
PROPS["C08"]["verus"]["droptbl"] = ["Package::drop_table", "Package::comp", "Package::comp_mut", "is_reserved_table_name"]
PROPS["C08"]["probes"] = {"Package::drop_table": ["droptable"], "StringPool::decref": ["dangling"], "ValueRef::remove": ["dangling"]}
PROPS["C02"]["probes"] = {"StringPoolBuilder::build_from_data": ["zerorc"]}
PROPS["C06"]["probes"] = {"Package::create_table_with_name": ["enumsemi"]}
PROPS["C07"]["probes"] = {"Category::validate": ["category"]}
PROPS["C14"]["probes"] = {"CodePage::encode": ["encode"], "CodePage::decode": ["bom"]}
PROPS["C18"]["probes"] = {"timestamp_from_system_time": ["time"], "system_time_from_timestamp": ["time"],
                          "duration_to_timestamp_delta": ["time"], "timestamp_delta_to_duration": ["time"]}
ROWS_FNS = ["Table::read_rows", "Column::coltype", "lemma_row_width_bounds", "lemma_row_width_mono", "lemma_mul_step", "lemma_mul_dist", "lemma_mul_mono", "lemma_div_mul"]
PROPS["C02"]["verus"]["rows"] = ROWS_FNS
PROPS["C09"]["verus"]["rows"] = ROWS_FNS
PROPS["C01"]["verus"]["rows"] = ["Table::read_rows", "lemma_cell_pair", "lemma_rows_pair", "lemma_le16_rt", "lemma_le32_rt", "lemma_ref_rt"]
PROPS["C01"]["verus"]["finish"] = ["FinishImpl::finish", "Package::flush"]
PROPS["C01"]["verus"]["readers"] = ["StringRef::read", "ColumnType::read_value", "Timestamp::read_from", "PropertyValue::read",
                                    "StringPoolBuilder::read_from_pool", "lemma_le16_roundtrip", "lemma_parse_entry",
                                    "lemma_entries_front", "lemma_pool_pair"]

PROPS["C20"] = {
    "level": "proof",
    "verus": {"serial": ["Table::write_rows", "StringRef::write"],
              "rows": ["Table::read_rows"],
              "readers": ["StringRef::read"],
              "streamname": ["is_valid"],
              "poolcap": ["ValueRef::create"],
              "mktable": ["Package::create_table_with_name", "Column::is_storable", "Column::is_primary_key", "Column::name"]},
    "probes": {"ValueRef::create": ["poolcap"], "Table::write_rows": ["rowlimit"], "Package::create_table_with_name": ["longname"]},
    "slow_probes": True,
    "assumptions": [
        "decided, limit by limit, on the functions that enforce (or must enforce) it: ROWS -- Table::read_rows accepts exactly the streams of at most 65536 rows and Table::write_rows returns Ok only for at most 65536 rows (symmetric since fix 'row limit'); STRING REFERENCES -- StringRef::write refuses a reference above 16 bits in two-byte mode (error, not truncation) and StringRef::read accepts every two- or three-byte reference; COLUMN WIDTH -- kani:typeword_roundtrip: exactly the widths above 255 are refused by is_storable; STREAM NAMES -- streamname::is_valid == the statement's `accepted` (31 UTF-16 units after encoding)",
        "ValueRef::create is checked under a contract WITHOUT a capacity precondition (group poolcap): the obligation 'incref's capacity precondition holds at its call site' fails -- a listed KNOWN FINDING (the library panics instead of returning an error when the 65,536th distinct string is interned with two-byte references; changing incref to return an error would change a signature the repository's own unit tests pin)",
        "COLUMNS -- group mktable: the checks of Package::create_table_with_name, i.e. the real body up to (excluding) `if self.tables.contains_key(..)`; everything after it (catalog rows, the new table) is replaced by an UNCONSTRAINED continuation (rule X14, logged with the number of lines dropped). Proved: a definition with more than 32 columns, no column, no primary key, an invalid table or column name, a table or column name of more than 32 characters (what the _Validation table holds; found and fixed: D22, such names failed on the LAST insert and left the table behind), or a column the type word cannot hold (string width above 255) is refused with an error BEFORE the package is touched (package unchanged); and a definition within the limits with distinct column names passes every check (its result is the continuation's). Trusted: Table::is_valid_name / Column::is_valid_name as functions of the text (groups category, streamname), columns.iter().any(Column::is_primary_key) and the local HashSet<&str> as a set of texts (shims in the template)",
        "NOT covered: the other definitions that only the final _Validation insert refuses (enumerations whose joined text exceeds 255 characters, a foreign-key table name above 255 characters, a key column outside 1..32) still fail after the catalog rows are partly written; catalog-name width limits of the OTHER operations (64/32 characters), 'leaves the package unchanged' after a refused call (C04), that Insert::exec refuses early (the fix adds that check, but Insert::exec is outside the verified set), everything cfb-level",
    ],
}

# assumptions that hold for every check of this family
COMMON_ASSUMPTIONS = [
    "Verus 0.2026.09.13 (Z3 bundled) and Kani 0.68 / CBMC 6.11 are sound for the constructs used",
    "extraction rules X1..X8 of DESIGN.md section 2.1 preserve the meaning of the extracted items (each application is listed under coverage.extraction_rules)",
    "machine integers are machine integers in both engines (no mathematical-integer abstraction of exec code)",
    "termination is proved by Verus (decreases) for the Verus units only; Kani harnesses do not prove termination",
    "the trusted prelude specs listed under coverage.trusted_base state documented std behaviour",
]
