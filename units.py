"""Which obligations decide which property.

verus: {group: [function names as Verus prints them (without the crate prefix)]}
       every listed function is one obligation (its contract + Verus' own
       safety obligations on the same body); the group is extracted from /repo
       and verified on every run.
kani : harnesses are declared next to their code in /verif/kani/*_kani.rs with
       `// @harness ... props=Cxx,...`; kind=Pc counts as proved, kind=Bk is a
       bounded stand-in and is reported separately.
pairs: verus function -> kani harness that can supply a concrete witness.
"""

PROPS = {
    "C13": {
        "level": "proof",
        "verus": {
            "expr": ["Value::from_bool", "Value::to_bool", "UnOp::eval", "BinOp::eval",
                     "Row::index", "Ast::eval"],
        },
        "pairs": {"UnOp::eval": "c13_unop_total", "BinOp::eval": "c13_binop_total"},
    },
}

# assumptions that hold for every check of this family
COMMON_ASSUMPTIONS = [
    "Verus 0.2026.09.13 (Z3 bundled) and Kani 0.68 / CBMC 6.11 are sound for the constructs used",
    "extraction rules X1..X8 of DESIGN.md section 2.1 preserve the meaning of the extracted items (each application is listed under coverage.extraction_rules)",
    "machine integers are machine integers in both engines (no mathematical-integer abstraction of exec code)",
    "termination is proved by Verus (decreases) for the Verus units only; Kani harnesses do not prove termination",
    "the trusted prelude specs listed under coverage.trusted_base state documented std behaviour",
]
