"""Which obligations decide which property.

verus: {group: [function names as Verus prints them (without the crate prefix)]}
       every listed function is one obligation (its contract + Verus' own
       safety obligations on the same body); the group is extracted from /repo
       and verified on every run.
kani : harnesses are declared next to their code in /verif/kani/*_kani.rs with
       `// @harness ... props=Cxx,...`; kind=Pc counts as proved, kind=Bk is a
       bounded stand-in and is reported separately.
pairs: verus function -> kani harness that can supply a concrete witness.
"""

PROPS = {
    "C13": {
        "level": "proof",
        "verus": {
            "expr": ["Value::from_bool", "Value::to_bool", "UnOp::eval", "BinOp::eval",
                     "Row::index", "Ast::eval"],
        },
        "pairs": {"UnOp::eval": "c13_unop_total", "BinOp::eval": "c13_binop_total"},
    },
}

PROPS["C18"] = {
    "level": "proof",
    "verus": {
        "timestamp": ["duration_to_timestamp_delta", "timestamp_delta_to_duration", "timestamp_from_system_time",
                      "system_time_from_timestamp", "Timestamp::from_system_time", "Timestamp::to_system_time",
                      "lemma_resolution", "lemma_idempotent", "lemma_ticks_roundtrip", "lemma_monotonic",
                      "lemma_back_monotonic", "lemma_saturates"],
    },
    "assumptions": [
        "SystemTime is viewed as an integer number of nanoseconds from the Unix epoch inside an uninterpreted platform range [ST_MIN, ST_MAX] containing 0",
        "the 'within 100 ns' lemma is proved under platform_covers_window(): the platform's SystemTime can represent 1601-01-01 .. the last 64-bit tick (true for 64-bit Linux time_t)",
    ],
}

PROPS["C07"] = {
    "level": "proof",
    "verus": {"column": ["Column::is_valid_value"]},
    "assumptions": [
        "Category::validate is an uninterpreted predicate cat_ok(category, string) (trusted contract): the category grammars themselves are NOT verified",
    ],
}

PROPS["C11"] = {
    "level": "proof",
    "verus": {
        "streamname": ["from_b64", "to_b64", "encode", "decode", "is_valid",
                       "lemma_b64_inverse_v", "lemma_b64_inverse_c", "lemma_dec_append", "lemma_dec_single",
                       "lemma_roundtrip", "lemma_injective", "lemma_enc_no_packable", "lemma_not_special",
                       "lemma_stream_not_table", "lemma_shift6", "lemma_dec_bits", "lemma_pack_bits"],
    },
    "assumptions": [
        "Peekable<Chars> obeys the iterator laws and yields exactly the remaining chars (trusted axiom axiom_peekable_chars_iter_laws and the next/peek specs in prelude/chars.rs)",
        "the cfb container compares/stores root entry names as given and interprets only '/' and '\\' as separators (so an accepted, separator-free encoded name is one root entry)",
        "Streams::next, read/write/remove_stream and remove_digital_signature (cfb I/O) are not covered",
    ],
}

PROPS["C14"] = {
    "level": "proof",
    "verus": {},
    "assumptions": [
        "the encoding_rs tables ARE the Windows code pages their names designate and are self-inverse on representable characters (dependency data; the per-character law over 1,112,064 x 26 is NOT claimed)",
        "28591 (ISO-8859-1) -> WINDOWS_1252 is accepted: encoding_rs, the stated oracle, has no separate ISO-8859-1 table",
    ],
}

# assumptions that hold for every check of this family
COMMON_ASSUMPTIONS = [
    "Verus 0.2026.09.13 (Z3 bundled) and Kani 0.68 / CBMC 6.11 are sound for the constructs used",
    "extraction rules X1..X8 of DESIGN.md section 2.1 preserve the meaning of the extracted items (each application is listed under coverage.extraction_rules)",
    "machine integers are machine integers in both engines (no mathematical-integer abstraction of exec code)",
    "termination is proved by Verus (decreases) for the Verus units only; Kani harnesses do not prove termination",
    "the trusted prelude specs listed under coverage.trusted_base state documented std behaviour",
]
