#!/usr/bin/env python3
"""Mechanical extractor: /repo source items  ->  one single-file Verus program.

A template (contracts/<group>.vt) is literal Verus text plus `//@` directives
that name items of /repo (by file + kind + name, never by line number) and the
contract clauses to splice around the *verbatim* item text.  Every rewrite of
item text that this script performs is one of the fixed rules X1..X8 of
DESIGN.md section 2.1; each application is logged in the returned metadata.

Directive grammar (one directive per line, `//@` at line start after blanks):

  //@use <relpath> : <selector> [trusted]
        selector ::= enum N | struct N | const N | static N | type N | fn N
                   | impl <header text as in source, whitespace-normalised>
  //@fn <name> [trusted]            (only inside `impl` uses; selects a method)
  //@ret <ident>                    name the return value:  -> T   =>  -> (ident: T)
  //@attr                           lines placed before the item / fn
  //@contract                       lines spliced between signature and body
  //@loop <n>                       lines spliced between the n-th loop head and its `{`
  //@before `snippet`               lines inserted before the first occurrence of snippet in the body
  //@after `snippet`                lines inserted after  the first occurrence of snippet in the body
  //@opt <name>                     per-item rewrite options (closed list, see OPTS)
  //@end

Anything that cannot be located raises AnchorLost (the driver reports UNDECIDED).
"""
import hashlib
import re
import sys
import os


class AnchorLost(Exception):
    pass


# --------------------------------------------------------------------------- #
# Lexing: mask comments / string / char literals so brace matching is safe.


STR_START = re.compile(r'b?r(#*)"|b?"')


def mask_source(src):
    """Return a string of the same length where comments, string literals and
    char literals are replaced by spaces (newlines kept)."""
    out = list(src)
    i, n = 0, len(src)

    def blank(a, b):
        for k in range(a, b):
            if out[k] != "\n":
                out[k] = " "

    while i < n:
        c = src[i]
        if src.startswith("//", i):
            j = src.find("\n", i)
            j = n if j < 0 else j
            blank(i, j)
            i = j
        elif src.startswith("/*", i):
            depth, j = 1, i + 2
            while j < n and depth:
                if src.startswith("/*", j):
                    depth += 1
                    j += 2
                elif src.startswith("*/", j):
                    depth -= 1
                    j += 2
                else:
                    j += 1
            blank(i, j)
            i = j
        elif (c == '"' or c in "br") and (i == 0 or not (src[i - 1].isalnum() or src[i - 1] == "_")) and STR_START.match(src, i):
            m = STR_START.match(src, i)
            j = m.end()
            if m.group(1) is not None:      # raw string
                close = '"' + m.group(1)
                k = src.find(close, j)
                k = n if k < 0 else k
                blank(j, k)
                i = k + len(close)
            else:
                k = j
                while k < n and src[k] != '"':
                    k += 2 if src[k] == "\\" else 1
                blank(j, min(k, n))
                i = k + 1
        elif c == "'":
            # char literal or lifetime
            m = re.match(r"'(\\.[^']*|[^\\'])'", src[i:])
            if m:
                blank(i + 1, i + m.end() - 1)
                i += m.end()
            else:
                i += 1
        else:
            i += 1
    return "".join(out)


def match_brace(masked, open_idx, open_ch="{", close_ch="}"):
    depth = 0
    for k in range(open_idx, len(masked)):
        ch = masked[k]
        if ch == open_ch:
            depth += 1
        elif ch == close_ch:
            depth -= 1
            if depth == 0:
                return k
    raise AnchorLost("unbalanced %s at %d" % (open_ch, open_idx))


def find_body_open(masked, start):
    """first `{` at paren/bracket depth 0 at or after start"""
    depth = 0
    for k in range(start, len(masked)):
        ch = masked[k]
        if ch in "([":
            depth += 1
        elif ch in ")]":
            depth -= 1
        elif ch == "{" and depth == 0:
            return k
        elif ch == ";" and depth == 0:
            return -1
    return -1


ITEM_RE = re.compile(
    r"(?m)^[ \t]*((?:pub(?:\s*\([^)]*\))?\s+)?(?:const\s+|unsafe\s+|async\s+)*)"
    r"(enum|struct|fn|const|static|type|impl|trait|mod|macro_rules!)\b")


def _norm(s):
    return re.sub(r"\s+", " ", s).strip()


def list_items(src, masked, lo, hi, depth_base):
    """Yield items (kind, name_or_header, start, end, kw_idx) that sit at brace
    depth `depth_base` within [lo, hi)."""
    # compute depth per position lazily
    depth = 0
    depths = {}
    k = lo
    pos = lo
    items = []
    # precompute depth array for region
    d = 0
    darr = [0] * (hi - lo + 1)
    for k in range(lo, hi):
        darr[k - lo] = d
        ch = masked[k]
        if ch == "{":
            d += 1
        elif ch == "}":
            d -= 1
    for m in ITEM_RE.finditer(masked, lo, hi):
        kw_idx = m.start(2)
        if darr[kw_idx - lo] != depth_base:
            continue
        kind = m.group(2)
        if kind == "const" and re.match(r"const\s+fn\b", masked[kw_idx:kw_idx + 20]):
            continue
        after = masked[m.end(2):]
        if kind == "impl":
            b = find_body_open(masked, m.end(2))
            if b < 0:
                continue
            name = _norm(src[m.end(2):b])
            # generic params directly after impl keep their spelling
            end = match_brace(masked, b) + 1
        elif kind in ("fn", "enum", "struct", "trait", "mod"):
            nm = re.match(r"\s*([A-Za-z_][A-Za-z0-9_]*)", after)
            if not nm:
                continue
            name = nm.group(1)
            b = find_body_open(masked, m.end(2))
            if b < 0:
                e = masked.find(";", m.end(2))
                end = e + 1
            else:
                end = match_brace(masked, b) + 1
                # tuple struct `struct X(..);` has no brace; handled by b<0. A
                # brace struct ends at its brace.
                if kind == "struct":
                    semi = masked.find(";", m.end(2))
                    if 0 <= semi < b:
                        end = semi + 1
        elif kind in ("const", "static", "type"):
            nm = re.match(r"\s*(?:mut\s+)?([A-Za-z_][A-Za-z0-9_]*)", after)
            if not nm:
                continue
            name = nm.group(1)
            # ends at `;` at bracket depth 0
            dd = 0
            end = None
            for k in range(m.end(2), hi):
                ch = masked[k]
                if ch in "([{":
                    dd += 1
                elif ch in ")]}":
                    dd -= 1
                elif ch == ";" and dd == 0:
                    end = k + 1
                    break
            if end is None:
                continue
        else:
            continue
        # extend start backwards over attributes and doc comments
        start = m.start()
        while True:
            prev_nl = src.rfind("\n", 0, start - 1) if start > 0 else -1
            line = src[prev_nl + 1:start]
            ls = line.strip()
            if start > lo and prev_nl + 1 >= lo and (ls.startswith("#[") or ls.startswith("///") or (ls.endswith("]") and _attr_cont(src, prev_nl + 1, lo))):
                start = prev_nl + 1
            else:
                break
        items.append((kind, name, start, end, kw_idx))
    return items


def _attr_cont(src, line_start, lo):
    # multi-line attribute: walk back to a line starting with #[
    k = line_start
    for _ in range(6):
        prev_nl = src.rfind("\n", 0, k - 1) if k > 0 else -1
        ls = src[prev_nl + 1:k].strip()
        if ls.startswith("#["):
            return True
        if not ls or ls.endswith(";") or ls.endswith("}"):
            return False
        k = prev_nl + 1
        if k <= lo:
            return False
    return False


# --------------------------------------------------------------------------- #
# Rewrites (X-rules).  All are newline-preserving.

KEEP_DERIVES = {"Clone", "Copy", "PartialEq", "Eq", "PartialOrd", "Ord", "Default"}
ERR_MACROS = ("invalid_data", "invalid_input", "not_found", "already_exists")


def _nl(s):
    return "\n" * s.count("\n")


def x1_strip(text, log, keep_default=False):
    """doc comments, #[allow], derive filtering"""
    def doc(m):
        log.add("X1:doc")
        return m.group(1)
    text = re.sub(r"(?m)^([ \t]*)///.*$", doc, text)
    text = re.sub(r"(?m)^([ \t]*)//!.*$", doc, text)

    def allow(m):
        log.add("X1:allow")
        return _nl(m.group(0))
    text = re.sub(r"#\[allow\([^\]]*\)\]", allow, text)
    if not keep_default:
        text = re.sub(r"#\[default\]", lambda m: (log.add("X1:default-attr"), "")[1], text)

    def derive(m):
        names = [x.strip() for x in m.group(1).split(",") if x.strip()]
        keep = [x for x in names if x in KEEP_DERIVES and (x != "Default" or keep_default)]
        dropped = [x for x in names if x not in keep]
        if dropped:
            log.add("X1:derive-drop(" + ",".join(dropped) + ")")
        return ("#[derive(" + ", ".join(keep) + ")]" if keep else "") + _nl(m.group(0))
    text = re.sub(r"#\[derive\(([^\]]*)\)\]", derive, text)

    def static_str(m):
        log.add("X1:const-&str-elided-'static-made-explicit")
        return m.group(1) + "&'static str"
    text = re.sub(r"(?m)^([ \t]*(?:pub(?:\([a-z]+\))?[ \t]+)?const[ \t]+[A-Z][A-Z0-9_]*[ \t]*:[ \t]*)&str\b", static_str, text)

    def static_arr(m):
        log.add("X1:const-&str-elided-'static-made-explicit")
        return m.group(1) + m.group(2).replace("&str", "&'static str").replace("&[", "&'static [")
    text = re.sub(r"(?m)^([ \t]*(?:pub(?:\([a-z]+\))?[ \t]+)?const[ \t]+[A-Z][A-Z0-9_]*[ \t]*:[ \t]*)((?:&\[&str\])|(?:\[&str; *\d+\]))", static_arr, text)
    return text


def _macro_spans(text, names):
    masked = mask_source(text)
    spans = []
    for m in re.finditer(r"\b(" + "|".join(names) + r")!\s*([(\[{])", masked):
        o = m.end() - 1
        close = {"(": ")", "[": "]", "{": "}"}[masked[o]]
        e = match_brace(masked, o, masked[o], close)
        spans.append((m.start(), e + 1, m.group(1), o))
    return spans


def x2_error_macros(text, log):
    spans = _macro_spans(text, ERR_MACROS)
    for (s, e, name, o) in reversed(spans):
        log.add("X2:" + name)
        text = text[:s] + "return Err(vx_io_error())" + _nl(text[s:e]) + text[e:]
    return text


def _split_top_commas(s):
    masked = mask_source(s)
    parts, depth, last = [], 0, 0
    for k, ch in enumerate(masked):
        if ch in "([{":
            depth += 1
        elif ch in ")]}":
            depth -= 1
        elif ch == "," and depth == 0:
            parts.append(s[last:k])
            last = k + 1
    parts.append(s[last:])
    return [p for p in parts if p.strip()]


def x8_debug_asserts(text, log, mode="assert"):
    spans = _macro_spans(text, ("debug_assert_eq", "debug_assert"))
    for (s, e, name, o) in reversed(spans):
        inner = text[o + 1:e - 1]
        args = _split_top_commas(inner)
        if mode == "drop":
            rep = "()"
            log.add("X8:drop-" + name)
        elif name == "debug_assert":
            rep = "assert(%s)" % args[0].strip()
            log.add("X8:debug_assert")
        else:
            rep = "assert((%s) == (%s))" % (args[0].strip(), args[1].strip())
            log.add("X8:debug_assert_eq")
        text = text[:s] + rep + _nl(text[s:e]) + text[e:]
    return text


def x5_ref_patterns(text, log):
    """`if let Some(&x) = e {`  ->  `if let Some(x__r) = e { let x = *x__r;`
       `for &(a, b, c) in e {`   ->  `for x__t in e { let (a, b, c) = *x__t;`
       Only applied where the template asks for it (opt x5)."""
    def some_ref(m):
        log.add("X5:Some(&x)")
        x = m.group(2)
        return "%sSome(%s__r) = %s {%s let %s = *%s__r;" % (m.group(1), x, m.group(3), "", x, x)
    text = re.sub(r"((?:if|while)\s+let\s+)Some\(&([a-z_][a-z0-9_]*)\)\s*=\s*([^{]+?)\s*\{", some_ref, text)
    return text


def x7_shims(text, log):
    """closed list of call shims (bodies of the shims are the original expression)"""
    n = 0
    def btenum(m):
        log.add("X7:vx_btree_iter_enumerate")
        return "vx_btree_iter_enumerate(&%s)" % m.group(1)
    text = re.sub(r"\b(self\.properties)\.iter\(\)\.enumerate\(\)", btenum, text)

    def btiter(m):
        log.add("X7:vx_btree_iter")
        return "vx_btree_iter(&%s)" % m.group(1)
    text = re.sub(r"\b(self\.properties)\.iter\(\)", btiter, text)

    # String + &String
    def concat(m):
        log.add("X7:vx_concat")
        return "Value::Str(vx_concat(%s, &%s))" % (m.group(1), m.group(2))
    text = re.sub(r"Value::Str\(\s*([a-z_][a-z0-9_]*)\s*\+\s*&([a-z_][a-z0-9_]*)\s*\)", concat, text)

    def peek(m):
        log.add("X7:vx_peekable")
        return "vx_peekable(%s.chars())" % m.group(1)
    text = re.sub(r"\b([a-z_][a-z0-9_]*)\.chars\(\)\.peekable\(\)", peek, text)

    def enum(m):
        log.add("X7:vx_enumerate")
        return "vx_enumerate(%s.iter())" % m.group(1)
    text = re.sub(r"\b((?:self\.)?[a-z_][a-z0-9_]*)\.iter\(\)\.enumerate\(\)", enum, text)

    def langs(m):
        log.add("X7:vx_languages")
        return "vx_languages()"
    text = re.sub(r"\bLANGUAGES\b(?=\.iter\(\)|\.binary_search|\[)", langs, text)

    def splitn(m):
        log.add("X7:vx_splitn2")
        return "vx_splitn2(%s, %s)" % (m.group(1), m.group(2))
    text = re.sub(r"\b([a-z_][a-z0-9_]*)\.splitn\(2, ('.')\)\.collect\(\)", splitn, text)

    def encstep(m):
        log.add("X7:vx_encode_step+vx_str_from")
        rng = m.group(3)
        lo, _, hi = rng.partition("..")
        src = "vx_str_from(%s, %s)" % (m.group(2), lo) if hi == "" else "vx_str_range(%s, %s, %s)" % (m.group(2), lo, hi)
        return "vx_encode_step(&mut %s, %s, &mut %s, %s)" % (m.group(1), src, m.group(4), m.group(5).strip()) + _nl(m.group(0))
    text = re.sub(r"\b([a-z_][a-z0-9_]*)\s*\.encode_from_utf8_without_replacement\(\s*&([a-z_][a-z0-9_]*)\[([a-z_][a-z0-9_]*\.\.(?:[a-z_][a-z0-9_]*)?)\],\s*&mut ([a-z_][a-z0-9_]*)\[\.\.\],\s*((?:[^,()]|\([^()]*\))+?),?\s*\)", encstep, text)

    def strlen(m):
        log.add("X7:vx_str_len")
        return "vx_str_len(string)"
    if "vx_encode_step(" in text:
        text = re.sub(r"\bstring\.len\(\)", strlen, text)

    def arrprefix(m):
        log.add("X7:vx_array_prefix")
        return "vx_array_prefix(&%s, %s)" % (m.group(1), m.group(2))
    text = re.sub(r"&(buffer)\[\.\.([a-z_][a-z0-9_]*)\]", arrprefix, text)

    def rowsize(m):
        log.add("X7:vx_row_size")
        return "vx_row_size(&self.columns, self.long_string_refs)" + _nl(m.group(0))
    text = re.sub(r"\bself\s*\.columns\s*\.iter\(\)\s*\.map\(\|col\| col\.coltype\(\)\.width\(self\.long_string_refs\)\)\s*\.sum::<u64>\(\)", rowsize, text)

    def rowsinit(m):
        log.add("X7:vx_rows_init")
        return "vx_rows_init(%s, %s)" % (m.group(1), m.group(2)) + _nl(m.group(0))
    text = re.sub(r"\bvec!\[\s*Vec::<ValueRef>::with_capacity\(([a-z_][a-z0-9_]*)\);\s*([a-z_][a-z0-9_]*)\s*\]", rowsinit, text)

    def collectstr(m):
        log.add("X7:vx_collect_string")
        return "vx_collect_string(%s)" % m.group(1)
    text = re.sub(r"\b(chars)\.into_iter\(\)\.collect\(\)", collectstr, text)

    def decsniff(m):
        log.add("X7:vx_decode_sniffing")
        return "vx_decode_sniffing(%s, %s)" % (m.group(1), m.group(2)) + _nl(m.group(0))
    text = re.sub(r"\b(self\.encoding\(\))\s*\.decode\(([a-z_][a-z0-9_]*)\)\s*\.0\s*\.into_owned\(\)", decsniff, text)

    def decplain(m):
        log.add("X7:vx_decode_plain")
        return "vx_decode_plain(%s, %s)" % (m.group(1), m.group(2)) + _nl(m.group(0))
    text = re.sub(r"\b(self\.encoding\(\))\s*\.decode_without_bom_handling\(([a-z_][a-z0-9_]*)\)\s*\.0\s*\.into_owned\(\)", decplain, text)

    def erreof(m):
        log.add("X7:vx_err_is_eof")
        return "vx_err_is_eof(&%s)" % m.group(1)
    text = re.sub(r"\b([a-z_][a-z0-9_]*)\.kind\(\) == io::ErrorKind::UnexpectedEof", erreof, text)

    def bsearch(m):
        log.add("X7:vx_bsearch_key0")
        return "vx_bsearch_key0(%s, %s)" % (m.group(1), m.group(2))
    text = re.sub(r"\b((?:vx_languages\(\))|(?:[a-z_][a-z0-9_]*))\.binary_search_by_key\(&([a-z_][a-z0-9_]*), \|t\| t\.0\)", bsearch, text)

    def beforefirst(m):
        log.add("X7:vx_before_first")
        return "vx_before_first(%s, %s)" % (m.group(1), m.group(2))
    text = re.sub(r"\b([a-z_][a-z0-9_]*)\s*\.split_once\(('.')\)\s*\.map_or\(&\*\*\1, \|x\| x\.0\)", beforefirst, text)

    def parselangs(m):
        log.add("X7:vx_parse_languages")
        return "vx_parse_languages(%s)" % m.group(1)
    text = re.sub(r"\b([a-z_][a-z0-9_]*\[1\])\s*\.split\(','\)\s*\.filter_map\(\|code\| code\.parse\(\)\.ok\(\)\)\s*\.map\(Language::from_code\)\s*\.collect\(\)", parselangs, text)

    def decimal(m):
        log.add("X7:vx_decimal_u16")
        return "vx_decimal_u16(%s)" % m.group(1)
    text = re.sub(r"\bformat!\(\"\{\}\", ([a-z_][a-z0-9_]*\.code\(\))\)", decimal, text)

    def joinsemi(m):
        log.add("X7:vx_join_semi")
        return "vx_join_semi(%s, %s)" % (m.group(1), m.group(2))
    text = re.sub(r"\bformat!\(\"\{\};\{\}\", ((?:[a-z_][a-z0-9_]*\.into\(\))|(?:vx_into_string\([a-z_][a-z0-9_]*\))), ([a-z_][a-z0-9_]*)\)", joinsemi, text)

    def cchar(m):
        log.add("X7:vx_contains_char")
        return "vx_contains_char(%s, %s)" % (m.group(1), m.group(2))
    text = re.sub(r"\b(value)\.contains\(('(?:\\.|[^'\\])')\)", cchar, text)

    def names_iter(m):
        log.add("X7:vx_strset_into_iter")
        return "vx_strset_into_iter(%s.column_names())" % m.group(1)
    text = re.sub(r"\b([a-z_][a-z0-9_]*)\.column_names\(\)\.into_iter\(\)", names_iter, text)

    def chaincl(m):
        log.add("X7:vx_chain_cloned")
        return "vx_chain_cloned(%s, %s)" % (m.group(1), m.group(2)) + _nl(m.group(0))
    text = re.sub(r"\b([a-z_][a-z0-9_]*)\s*\.iter\(\)\s*\.chain\(([a-z_][a-z0-9_]*)\.iter\(\)\)\s*\.cloned\(\)\s*\.collect\(\)", chaincl, text)

    def tovals(m):
        log.add("X7:vx_to_values")
        return "vx_to_values(&%s, %s)" % (m.group(1), m.group(2)) + _nl(m.group(0))
    text = re.sub(r"\b([a-z_][a-z0-9_]*)\s*\.iter\(\)\s*\.map\(\|value_ref\| value_ref\.to_value\(([a-z_][a-z0-9_]*)\)\)\s*\.collect\(\)", tovals, text)

    def splitcollect(m):
        log.add("X7:vx_split_collect")
        return "vx_split_collect(%s.as_str().unwrap(), %s)" % (m.group(1), m.group(2)) + _nl(m.group(0))
    text = re.sub(r"\b([a-z_][a-z0-9_]*)\s*\.as_str\(\)\s*\.unwrap\(\)\s*\.split\(('.')\)\s*\.collect\(\)", splitcollect, text)

    def parsecat(m):
        log.add("X7:vx_parse_category")
        return "vx_parse_category(%s.as_str().unwrap())" % m.group(1) + _nl(m.group(0))
    text = re.sub(r"\b([a-z_][a-z0-9_]*)\s*\.as_str\(\)\s*\.unwrap\(\)\s*\.parse::<Category>\(\)\s*\.ok\(\)", parsecat, text)

    def padnulls(m):
        log.add("X7:vx_pad_nulls")
        return "vx_pad_nulls(%s, &%s)" % (m.group(1), m.group(2)) + _nl(m.group(0))
    text = re.sub(r"\b([a-z_][a-z0-9_]*)\s*\.iter\(\)\s*\.cloned\(\)\s*\.chain\(\s*([a-z_][a-z0-9_]*)\s*\.columns\(\)\s*\.iter\(\)\s*\.map\(\|_\| ValueRef::Null\),?\s*\)\s*\.collect\(\)", padnulls, text)

    def tcont(m):
        log.add("X7:vx_tables_has")
        return "vx_tables_has(&self.tables, %s)" % m.group(1)
    text = re.sub(r"\bself\.tables\.contains_key\((table_name)\)", tcont, text)

    def tgetu(m):
        # every use of `self.tables.get(table_name)` (whatever follows: `.unwrap()`, `.cloned()`, a
        # `match`): vstd's own BTreeMap::get says nothing for String keys, and a proof that fails
        # for that reason must not look like a violation
        log.add("X7:vx_tables_get_str")
        return "vx_tables_get_str(&self.tables, %s)" % m.group(1)
    text = re.sub(r"\bself\.tables\.get\((table_name)\)", tgetu, text)

    def tget(m):
        log.add("X7:vx_tables_get")
        return "vx_tables_get(%s, %s)" % (m.group(1), m.group(2))
    # every lookup `tables.get(<arg>)` on the `tables: &BTreeMap<String, Rc<Table>>` parameter (a
    # differently typed argument then fails to type-check against the shim: UNDECIDED, not an alarm)
    text = re.sub(r"(?<![.\w])(tables)\.get\(((?:[^()]|\([^()]*\))*)\)", tget, text)

    def anypk(m):
        log.add("X7:vx_any_primary_key")
        return "vx_any_primary_key(&%s)" % m.group(1)
    text = re.sub(r"\b(columns)\.iter\(\)\.any\(Column::is_primary_key\)", anypk, text)

    # a local `HashSet<&str>` of names: new / contains / insert through a model of string sets
    for hs in re.findall(r"let mut ([a-z_][a-z0-9_]*) = HashSet::<&str>::new\(\);", text):
        log.add("X7:vx_strset(new/contains/insert)")
        text = re.sub(r"let mut %s = HashSet::<&str>::new\(\);" % hs, "let mut %s = vx_strset_new();" % hs, text)
        text = re.sub(r"\b%s\.contains\(([a-z_][a-z0-9_]*)\)" % hs, r"vx_strset_contains(&%s, \1)" % hs, text)
        text = re.sub(r"\b%s\.insert\(([a-z_][a-z0-9_]*)\)" % hs, r"vx_strset_insert(&mut %s, \1)" % hs, text)

    def uubr(m):
        log.add("X7:vx_uuid_braced")
        return "vx_uuid_braced(&%s)" % m.group(1)
    text = re.sub(r"\bformat!\(\"\{\{\{\}\}\}\", ([a-z_][a-z0-9_]*)\.hyphenated\(\)\)", uubr, text)

    def mkupper(m):
        log.add("X7:vx_make_ascii_uppercase")
        return "vx_make_ascii_uppercase(&mut %s)" % m.group(1)
    text = re.sub(r"\b([a-z_][a-z0-9_]*)\.make_ascii_uppercase\(\)", mkupper, text)

    def trims(m):
        log.add("X7:vx_trim_start_char+vx_trim_end_char")
        return "vx_trim_end_char(vx_trim_start_char(%s, %s), %s)" % (m.group(1), m.group(2), m.group(3))
    text = re.sub(r"\b([a-z_][a-z0-9_]*)\s*\.trim_start_matches\(('.')\)\s*\.trim_end_matches\(('.')\)", trims, text)

    def uuparse(m):
        log.add("X7:vx_uuid_parse")
        return "vx_uuid_parse(%s)" % m.group(1)
    text = re.sub(r"\bUuid::parse_str\(([a-z_][a-z0-9_]*)\)\.ok\(\)", uuparse, text)

    def btit(m):
        log.add("X7:vx_btree_into_iter")
        return "vx_btree_into_iter(%s)" % m.group(1)
    text = re.sub(r"\b(property_offsets)\.into_iter\(\)", btit, text)

    def u16(m):
        log.add("X7:vx_utf16_count")
        return "vx_utf16_count(&%s)" % m.group(1)
    text = re.sub(r"\b([a-z_][a-z0-9_]*(?:\([^()]*\))?)\.encode_utf16\(\)\.count\(\)", u16, text)

    def dispm(m):
        log.add("X7:vx_display(method form)")
        return "vx_display(%s, %s)" % (m.group(1), m.group(2))
    text = re.sub(r"\b(value)\.fmt\((formatter)\)", dispm, text)

    def disps(m):
        log.add("X7:vx_display_string")
        return "vx_display_string(%s, %s)" % (m.group(1), m.group(2))
    text = re.sub(r"\b(table_name)\.fmt\((formatter)\)", disps, text)

    def dispself(m):
        log.add("X4:Display::fmt(self,..)->self.fmt(..)")
        return "self.fmt(%s)" % m.group(1)
    text = re.sub(r"\bfmt::Display::fmt\(\s*self\s*,\s*([a-z_][a-z0-9_]*)\s*\)", dispself, text)

    def dispfield(m):
        log.add("X4:Display::fmt(&self.field,..)->self.field.fmt(..)")
        return "%s.fmt(%s)" % (m.group(1), m.group(2))
    text = re.sub(r"\bfmt::Display::fmt\(\s*&\s*(self(?:\.[a-z_][a-z0-9_]*)+)\s*,\s*([a-z_][a-z0-9_]*)\s*\)", dispfield, text)

    def disp(m):
        log.add("X7:vx_display")
        return "vx_display(%s, %s)" % (m.group(1), m.group(2))
    text = re.sub(r"\bfmt::Display::fmt\(\s*([a-z_][a-z0-9_]*)\s*,\s*([a-z_][a-z0-9_]*)\s*\)", disp, text)
    return text


def x4_formatter(text, log):
    def f(m):
        log.add("X4:Formatter->VFmt")
        return "VFmt"
    return re.sub(r"\bfmt::Formatter\b", f, text)


def x3_generic_io(text, log):
    """`<W: Write>` / `<R: Read>` / `<R: Read + Seek>` generic parameters are
    instantiated with the prelude types VSink / VSource.  The byteorder
    turbofish `::<LittleEndian>` is dropped (prelude methods are LE)."""
    def gen(m):
        log.add("X3:generic-io")
        return ""
    text2 = re.sub(r"<\s*(R)\s*:\s*(Read(?:\s*\+\s*Seek)?)\s*>", gen, text)
    if text2 != text:
        text2 = re.sub(r"\bR\b", "VSource", text2)
    # writers stay generic: the bound becomes the prelude trait VWrite (VSink, Vec<u8>)
    text3 = re.sub(r"<\s*W\s*:\s*Write\s*>", "<W: VWrite>", text2)
    if text3 != text2:
        log.add("X3:generic-io")
    text2 = text3
    text2 = re.sub(r"::<LittleEndian>", lambda m: (log.add("X3:le-turbofish"), "")[1], text2)
    return text2


def x6_for_ghost_iter(text, log):
    """`for x in e {` -> `for x in it: e {` (names Verus' ghost iterator so invariants can mention it)"""
    def f(m):
        log.add("X9:for-ghost-iterator-name")
        return "%sfor %s in it: %s" % (m.group(1), m.group(2), m.group(3))
    def amp(m):
        # `for x in &v` is `for x in v.iter()` (std: `impl IntoIterator for &Vec<T>` / `&[T]` calls iter())
        log.add("X9:for-x-in-&v->v.iter()")
        return "%s%sfor %s in %s.iter() " % (m.group(1), m.group(2), m.group(3), m.group(4))
    text = re.sub(r"(^|\n)(\s*)for ([a-z_][a-z0-9_]*|\([a-z_, ]*\)) in &([a-z_][a-z0-9_.]*) (?=\{)", amp, text)
    return re.sub(r"(^|\n)(\s*)for ([a-z_][a-z0-9_]*|\([a-z_, ]*\)) in ([a-z_0-9][a-z0-9_.()&]*) (?=\{)", lambda m: "%s%sfor %s in it: %s " % (m.group(1), m.group(2), m.group(3), m.group(4)) if not log.add("X9:for-ghost-iterator-name") else "", text)


def x5b_ref_enum_pattern(text, log):
    """match arm `Some(&Enum::Variant(x)) =>`  ->  `Some(Enum::Variant(x)) =>`
    (default binding modes bind x by reference instead of by copy; only used where
    the payload is Copy and is used through auto-deref)"""
    def f(m):
        log.add("X5:Some(&Enum::Variant(x))")
        return "Some(" + m.group(1)
    return re.sub(r"Some\(&([A-Z][A-Za-z0-9_]*::[A-Z][A-Za-z0-9_]*\()", f, text)


def x3b_by_value_writer(text, log):
    """top-level serializers take `mut writer: W` BY VALUE (W = &mut Vec<u8>, cfb::Stream, ...).
    To observe the sink after the call, W is instantiated with `&mut VSink`: the parameter
    becomes `writer: &mut VSink`, and `&mut writer` / `writer.by_ref()` (a `&mut &mut VSink`
    handed to callees generic in W2) become the reborrow `&mut *writer` (callee at W2 = VSink).
    `impl Write for &mut W` forwards every call, so both forms drive the same sink."""
    t2 = re.sub(r"<\s*W\s*:\s*Write\s*>", "<W: VWrite>", text)
    t2 = re.sub(r"\b(?:mut )?writer\s*:\s*W\b", "writer: &mut W", t2)
    t2 = t2.replace("&mut writer", "&mut *writer").replace("writer.by_ref()", "&mut *writer")
    t2 = re.sub(r"writer\.write_all\(&self\.(clsid|fmtid)\)", r"writer.write_all16(&self.\1)", t2)
    t2 = re.sub(r"::<LittleEndian>", "", t2)
    if t2 != text:
        log.add("X3b:by-value-writer-as-&mut-VSink")
    return t2


def x5d_for_copy_tuple(text, log):
    """`for &(a, b, c) in e {` -> `for vx_e in e { let a = vx_e.0; let b = vx_e.1; let c = vx_e.2;`
    (all fields Copy; the reference pattern is deref-then-destructure)"""
    def f(m):
        names = [x.strip() for x in m.group(1).split(",")]
        log.add("X5:for-&(copy tuple)")
        v = "vx_e%d" % len(names)
        binds = " ".join("let %s = %s.%d;" % (n, v, i) for i, n in enumerate(names))
        return "for %s in %s {\n                %s" % (v, m.group(2), binds)
    return re.sub(r"for &\(([a-z_][a-z0-9_]*(?:, [a-z_][a-z0-9_]*)+)\) in ([^{]+?)\s*\{", f, text)


def x5c_for_ref_tuple(text, log):
    """`for &(ref a, b) in e {`  ->  `for vx_e in e { let a = &vx_e.0; let b = vx_e.1;`
    (the Rust reference defines the reference pattern as exactly this: deref, then bind
    field 0 by reference and field 1 by copy; b is Copy)"""
    def f(m):
        log.add("X5:for-&(ref a, b)")
        return "for vx_e in %s {\n            let %s = &vx_e.0; let %s = vx_e.1;" % (m.group(3), m.group(1), m.group(2))
    return re.sub(r"for &\(ref ([a-z_][a-z0-9_]*), ([a-z_][a-z0-9_]*)\) in ([^{]+?)\s*\{", f, text)


def x1_nopub(text, log):
    """drop the visibility qualifier of the item (single-file crate: no effect on meaning;
    needed when a contract mentions spec functions over private types)"""
    t2 = re.sub(r"^(\s*)pub(?:\s*\([^)]*\))?\s+(fn|const fn)\b", r"\1\2", text, count=1, flags=re.M)
    if t2 != text:
        log.add("X1:visibility-dropped")
    return t2


def x3r_by_value_reader(text, log):
    """as X3b, for `mut reader: R` taken by value (R = &[u8], Cursor, cfb::Stream, ...):
    the parameter becomes `reader: &mut VSource`, `&mut reader` / `reader.by_ref()` become
    the reborrow `&mut *reader` (`impl Read for &mut R` forwards)."""
    t2 = re.sub(r"<\s*R\s*:\s*Read(?:\s*\+\s*Seek)?\s*>", "", text)
    t2 = re.sub(r"\b(?:mut )?reader\s*:\s*R\b", "reader: &mut VSource", t2)
    # read_exact into a local declared as [u8; 16]: the prelude method for that array type
    for arr in re.findall(r"let mut ([a-z_][a-z0-9_]*): \[u8; 16\]", t2):
        t2 = t2.replace("reader.read_exact(&mut %s)" % arr, "reader.read_exact16(&mut %s)" % arr)
    t2 = t2.replace("&mut reader", "&mut *reader").replace("reader.by_ref()", "&mut *reader")
    t2 = re.sub(r"::<LittleEndian>", "", t2)
    if t2 != text:
        log.add("X3b:by-value-reader-as-&mut-VSource")
    return t2


def x5e_arm_ref_pattern(text, log):
    """match arm `&Enum::Variant(..) =>` on a reference scrutinee -> `Enum::Variant(..) =>`
    (default binding modes: matching a reference against a non-reference pattern derefs it)"""
    def f(m):
        log.add("X5:arm-&Enum::Variant")
        return m.group(1) + m.group(2)
    return re.sub(r"(\n\s*)&([A-Z][A-Za-z0-9_]*::[A-Z][A-Za-z0-9_]*\([^)]*\)\s*=>)", f, text)


def x5f_for_enum_kv(text, log):
    """`for (index, (&name, _)) in e {` -> `for (index, vx_kv) in e { let name = *vx_kv.0;`"""
    def f(m):
        log.add("X5:for-(index,(&k,_))")
        return "for (%s, vx_kv) in %s {\n            let %s = *vx_kv.0;" % (m.group(1), m.group(3), m.group(2))
    return re.sub(r"for \(([a-z_][a-z0-9_]*), \(&([a-z_][a-z0-9_]*), _\)\) in ([^{]+?)\s*\{", f, text)


def x3s_into_string(text, log):
    """`fn f<S: Into<String>>(&mut self, x: S)` is instantiated at S = String: the parameter
    becomes `x: String` and `x.into()` becomes `vx_into_string(x)` (`impl<T> From<T> for T` is the
    identity: the shim's body is `x.into()`).  At call sites inside the extracted code a literal
    argument `self.set_y("lit")` (S = &str) becomes `self.set_y(vx_string_from("lit"))`, the
    String that `.into()` produces for a &str (`String::from`)."""
    m = re.search(r"<\s*S\s*:\s*Into<String>\s*>", text)
    t2 = text
    if m:
        t2 = text[:m.start()] + text[m.end():]
        names = re.findall(r"\b([a-z_][a-z0-9_]*)\s*:\s*S\b", t2)
        t2 = re.sub(r"\b([a-z_][a-z0-9_]*)\s*:\s*S\b", r"\1: String", t2)
        for n in names:
            t2 = re.sub(r"\b%s\.into\(\)" % n, "vx_into_string(%s)" % n, t2)
        log.add("X3s:S=String")
    t3 = re.sub(r"\b(self\.set_[a-z_]+)\((\"(?:[^\"\\]|\\.)*\")\)", r"\1(vx_string_from(\2))", t2)
    if t3 != t2:
        log.add("X3s:literal-arg->String")
    return t3


def x3c_container(text, log):
    """the cfb dependency is replaced by its model: `cfb::CompoundFile<F>` -> `VComp`
    (prelude/comp.rs); with it the type parameter F disappears: `Package<F>` -> `Package`."""
    t2 = re.sub(r"\bcfb::CompoundFile<F>", "VComp", text)
    t2 = re.sub(r"\bPackage<F>", "Package", t2)
    t2 = re.sub(r"\bcfb::Entries<'a, F>", "VEntries", t2)
    t2 = re.sub(r"\bcfb::Stream<F>", "VStream", t2)
    t2 = re.sub(r"\b(StreamReader|StreamWriter)<F>", r"\1", t2)
    t2 = re.sub(r"\bStreams<'a, F(?:: 'a)?>", "Streams", t2)
    # closed world: FinishImpl is the only implementor of the private trait Finish
    t2 = re.sub(r"\bBox<dyn Finish<F>>", "Box<FinishImpl>", t2)
    # a function generic in F only for its `comp: &mut cfb::CompoundFile<F>` parameter: with the
    # model type the parameter F and its where clause disappear
    if "VComp" in t2 and re.search(r"\bfn\s+[a-z_][a-z0-9_]*<F>\(", t2):
        t2 = re.sub(r"(\bfn\s+[a-z_][a-z0-9_]*)<F>\(", r"\1(", t2)
        t2 = re.sub(r"\bwhere\s+F: Read \+ Write \+ Seek,", lambda m: _nl(m.group(0)), t2)
        log.add("X3c:fn<F>..where F: Read+Write+Seek -> no type parameter")
    if t2 != text:
        log.add("X3c:cfb::CompoundFile<F>->VComp")
    return t2


def x3v_by_value_stream(text, log):
    """serializers that the code under contract calls with a writer BY VALUE: the bound
    `W: Write` becomes `W: VWriter` (prelude/comp.rs: a container stream, or `&mut Vec<u8>`);
    used for imported (trusted) contracts only, so the body is not emitted."""
    t2 = re.sub(r"<\s*W\s*:\s*Write\s*>", "<W: VWriter>", text)
    t2 = re.sub(r"\bmut\s+writer\s*:\s*W\b", "writer: W", t2)
    if t2 != text:
        log.add("X3v:W:Write->W:VWriter(by value)")
    return t2


def x11_scope_end_drop(text, log):
    """Rust drops a local at the end of its block unless it was moved.  For every
    `let [mut] v = ...create_stream(...)?;` the implicit drop is made explicit: `vx_drop(v);` is
    inserted before the closing brace of the enclosing block -- unless v is moved inside the block,
    i.e. occurs as a whole call argument `(v)` / `, v)` / `(v,` (a by-value use of a non-Copy
    value).  Early exits through `?` leave the block before that point and are not affected."""
    masked = mask_source(text)
    out = text
    shift = 0
    for m in re.finditer(r"\blet\s+(?:mut\s+)?([a-z_][a-z0-9_]*)\s*(?::[^=;]+)?=[^;]*?\bcreate_stream\([^;]*;", masked):
        v = m.group(1)
        # enclosing block: scan forward from the end of the statement to the unmatched `}`
        depth = 0
        k = m.end()
        while k < len(masked):
            if masked[k] == "{":
                depth += 1
            elif masked[k] == "}":
                if depth == 0:
                    break
                depth -= 1
            k += 1
        if k >= len(masked):
            continue
        block = masked[m.end():k]
        moved = re.search(r"[(,]\s*%s\s*[,)]" % v, block)
        if moved:
            log.add("X11:`%s` moved into a callee (no scope-end drop)" % v)
            continue
        ins = "vx_drop(%s); " % v
        out = out[:k + shift] + ins + out[k + shift:]
        shift += len(ins)
        log.add("X11:scope-end drop of `%s` made explicit" % v)
    return out


def x10_fields(text, keep, log):
    """struct fields that no extracted function reads or writes are dropped (keep-list given by
    the template; a function touching a dropped field no longer compiles -> UNDECIDED)."""
    masked = mask_source(text)
    b = masked.find("{")
    e = match_brace(masked, b)
    body = text[b + 1:e]
    mbody = masked[b + 1:e]
    starts = [m.start() for m in re.finditer(r"(?m)^[ \t]*(?:pub(?:\([a-z]+\))?[ \t]+)?[a-z_][a-z0-9_]*[ \t]*:", mbody)]
    pieces = []
    for i, st in enumerate(starts):
        en = starts[i + 1] if i + 1 < len(starts) else len(body)
        name = re.match(r"[ \t]*(?:pub(?:\([a-z]+\))?[ \t]+)?([a-z_][a-z0-9_]*)", mbody[st:en]).group(1)
        pieces.append((name, st, en))
    res = body[:starts[0]] if starts else body
    dropped = []
    for (name, st, en) in pieces:
        if name in keep:
            res += body[st:en]
        else:
            res += _nl(body[st:en])
            dropped.append(name)
    log.add("X10:fields-dropped(" + ",".join(dropped) + ")")
    return text[:b + 1] + res + text[e:]


_RECV = r"((?:&\*\*)?[a-z_][a-z0-9_]*(?:\[[^\[\]]+\])?)"


def x7s_string_shims(text, log):
    """X7s: the std string calls of the category grammars, by method name and by the KIND of the
    pattern argument (closure `|..|` or char literal `'c'`): `e.m(arg)` -> `vx_m(e, arg)`; every
    shim's body is the original call (prelude/catshim.rs).  `.len()` becomes `.vx_len()`, a trait
    method resolved by rustc on the receiver's type (str: UTF-8 length, Vec: number of elements).
    X13: every closure handed to one of these shims (and to the split model's `all`) gets the
    contract `result == <its own body>` (the body text is repeated, not interpreted)."""
    def sub(pattern, repl, tag):
        nonlocal text
        def f(m):
            log.add("X7s:" + tag)
            return repl(m)
        text = re.sub(pattern, f, text)
    sub(_RECV + r"\s*\.chars\(\)\s*\.any\(\s*(?=\|)", lambda m: "vx_chars_any(%s, " % m.group(1), "vx_chars_any")
    sub(_RECV + r"\s*\.chars\(\)\s*\.all\(\s*(?=\|)", lambda m: "vx_chars_all(%s, " % m.group(1), "vx_chars_all")
    sub(_RECV + r"\s*\.starts_with\(\s*(?=\|)", lambda m: "vx_starts_with_pred(%s, " % m.group(1), "vx_starts_with_pred")
    sub(_RECV + r"\s*\.contains\(\s*(?=\|)", lambda m: "vx_contains_pred(%s, " % m.group(1), "vx_contains_pred")
    sub(_RECV + r"\s*\.starts_with\(\s*(?=')", lambda m: "vx_starts_with_char(%s, " % m.group(1), "vx_starts_with_char")
    sub(_RECV + r"\s*\.ends_with\(\s*(?=')", lambda m: "vx_ends_with_char(%s, " % m.group(1), "vx_ends_with_char")
    sub(_RECV + r"\s*\.contains\(\s*(?=')", lambda m: "vx_contains_char(%s, " % m.group(1), "vx_contains_char")
    sub(_RECV + r"\s*\.strip_prefix\(\s*(?=')", lambda m: "vx_strip_prefix_char(%s, " % m.group(1), "vx_strip_prefix_char")
    sub(_RECV + r"\s*\.rsplitn\(\s*2\s*,\s*('(?:\\.|[^'\\])')\s*\)\s*\.collect\(\)", lambda m: "vx_rsplitn2_char(%s, %s)" % (m.group(1), m.group(2)), "vx_rsplitn2_char")
    sub(_RECV + r"\s*\.splitn\(\s*2\s*,\s*('(?:\\.|[^'\\])')\s*\)\s*\.collect\(\)", lambda m: "vx_splitn2_char(%s, %s)" % (m.group(1), m.group(2)), "vx_splitn2_char")
    sub(_RECV + r"\s*\.rsplit_once\(\s*(?=')", lambda m: "vx_rsplit_once_char(%s, " % m.group(1), "vx_rsplit_once_char")
    sub(_RECV + r"\s*\.split_once\(\s*(?=')", lambda m: "vx_split_once_char(%s, " % m.group(1), "vx_split_once_char")
    sub(_RECV + r"\s*\.split\(\s*(?=')", lambda m: "vx_split_char(%s, " % m.group(1), "vx_split_char")
    sub(_RECV + r"\s*\.trim_start_matches\(\s*(?=')", lambda m: "vx_trim_start_char(%s, " % m.group(1), "vx_trim_start_char")
    sub(_RECV + r"\s*\.trim_end_matches\(\s*(?=')", lambda m: "vx_trim_end_char(%s, " % m.group(1), "vx_trim_end_char")
    sub(_RECV + r"\s*\.parse::<(i16|i32|u16)>\(\)\s*\.is_ok\(\)", lambda m: "vx_parse_ok_%s(%s)" % (m.group(2), m.group(1)), "vx_parse_ok")
    sub(r"&([a-z_][a-z0-9_]*)\[([a-z0-9_]+)\.\.([a-z0-9_]+)\]", lambda m: "vx_str_range(%s, %s, %s)" % (m.group(1), m.group(2), m.group(3)), "vx_str_range")
    sub(r"\bUuid::parse_str\(((?:[^()]|\([^()]*\))*)\)\s*\.is_ok\(\)", lambda m: "vx_uuid_parse_ok(%s)" % m.group(1), "vx_uuid_parse_ok")
    sub(r"\b([a-z_][a-z0-9_]*)\.reverse\(\)", lambda m: "vx_vec_reverse(&mut %s)" % m.group(1), "vx_vec_reverse")
    sub(r"\.len\(\)", lambda m: ".vx_len()", "vx_len")
    return x13_closure_contracts(text, log)


def x13_closure_contracts(text, log):
    """X13: a closure that is the LAST argument of a call, `f(.., |p| BODY)`, becomes
    `f(.., |p| -> (vx_b: bool) ensures vx_b == (BODY) { BODY })`: its contract is its own body."""
    out, i = [], 0
    masked = mask_source(text)
    while True:
        m = re.compile(r"[(,]\s*\|([^|]*)\|\s*").search(masked, i)
        if not m:
            break
        # the body runs to the parenthesis that closes the call
        j, depth = m.end(), 0
        while j < len(masked):
            ch = masked[j]
            if ch in "([{":
                depth += 1
            elif ch in ")]}":
                if depth == 0:
                    break
                depth -= 1
            elif ch == "," and depth == 0:
                break
            j += 1
        if j >= len(masked) or masked[j] != ")" or "->" in masked[m.end():j][:4]:
            out.append(text[i:m.end()])
            i = m.end()
            continue
        body = text[m.end():j].rstrip()
        tail = text[m.end() + len(body):j]
        # the copy in the contract: comments removed, on one line (the line count of the function is kept)
        mb = masked[m.end():m.end() + len(body)]
        one, k = [], 0
        while k < len(body):
            if mb[k] == " " and (body.startswith("//", k) or body.startswith("/*", k)):
                e = k
                while e < len(body) and mb[e] == " " and body[e] != "\n":
                    e += 1
                k = e
                continue
            one.append(body[k])
            k += 1
        one = re.sub(r"\s+", " ", "".join(one)).strip().replace(".vx_len()", ".vx_len_spec()")
        log.add("X13:closure-contract")
        out.append(text[i:m.start()] + text[m.start():m.end()].rstrip() + " -> (vx_b: bool) ensures vx_b == (%s) { %s }" % (one, body) + tail)
        i = j
    out.append(text[i:])
    return "".join(out)


OPTS = {
    "x3c": x3c_container,
    "x3v": x3v_by_value_stream,
    "x11": x11_scope_end_drop,
    "x3s": x3s_into_string,
    "x5f": x5f_for_enum_kv,
    "x5e": x5e_arm_ref_pattern,
    "x3r": x3r_by_value_reader,
    "x5d": x5d_for_copy_tuple,
    "nopub": x1_nopub,
    "x5c": x5c_for_ref_tuple,
    "x3b": x3b_by_value_writer,
    "x5b": x5b_ref_enum_pattern,
    "forit": x6_for_ghost_iter,
    "x3": x3_generic_io,
    "x4": x4_formatter,
    "x5": x5_ref_patterns,
    "x7": x7_shims,
    "x7s": x7s_string_shims,
}


# --------------------------------------------------------------------------- #


def norm_hash(text):
    """sha256 (first 16 hex) of the item with comments removed and whitespace collapsed"""
    m = mask_source(text)
    # masked text blanks string contents too; fine for enums/structs
    return hashlib.sha256(_norm(m).encode()).hexdigest()[:16]


class Piece:
    """output fragment with its origin (file, first line) or template origin"""
    __slots__ = ("text", "file", "line")

    def __init__(self, text, file, line):
        self.text, self.file, self.line = text, file, line


class FnSpec:
    def __init__(self, name, trusted=False):
        self.name = name
        self.trusted = trusted
        self.ret = None
        self.attr = []
        self.contract = []
        self.loops = {}
        self.before = []
        self.after = []
        self.afterstmt = []
        self.loopends = {}
        self.shape = []
        self.cut = None
        self.block = None      # X15: (start snippet, end snippet)
        self.sig = None        # X15: signature given by the template
        self.tail = None       # X15: result expression after the block
        self.opts = []
        self.bodystart = []
        self.bodyend = []
        self.tline = 0


class Use:
    def __init__(self, path, selector, trusted, tline):
        self.path, self.selector, self.trusted, self.tline = path, selector, trusted, tline
        self.fns = []          # for impl
        self.top = FnSpec(None, trusted)   # for fn / non-impl items


def parse_template(tpath):
    lines = open(tpath).read().split("\n")
    out = []          # list of ("lit", text, line) | ("use", Use)
    cur_use = None
    cur_fn = None
    cur_block = None  # list to append lines to
    lit = []
    lit_start = 1

    def flush_lit(i):
        nonlocal lit, lit_start
        if lit:
            out.append(("lit", "\n".join(lit) + "\n", lit_start))
        lit = []
        lit_start = i + 1

    for i, raw in enumerate(lines):
        s = raw.strip()
        if s.startswith("//@"):
            d = s[3:].strip()
            if d.startswith("use "):
                flush_lit(i)
                m = re.match(r"use\s+(\S+)\s*:\s*(.+?)(\s+trusted)?$", d)
                if not m:
                    raise SystemExit("%s:%d: bad use" % (tpath, i + 1))
                cur_use = Use(m.group(1), _norm(m.group(2)), bool(m.group(3)), i + 1)
                cur_fn = cur_use.top
                cur_fn.tline = i + 1
                cur_block = None
            elif d.startswith("fn "):
                m = re.match(r"fn\s+(\S+)(\s+trusted)?$", d)
                cur_fn = FnSpec(m.group(1), bool(m.group(2)))
                cur_fn.tline = i + 1
                cur_use.fns.append(cur_fn)
                cur_block = None
            elif d.startswith("ret "):
                cur_fn.ret = d[4:].strip()
            elif d == "attr":
                cur_block = cur_fn.attr
            elif d == "contract":
                cur_block = cur_fn.contract
            elif d.startswith("loop "):
                cur_block = cur_fn.loops.setdefault(int(d[5:]), [])
            elif d.startswith("shape "):
                # a snippet the body must contain for the in-body proof script to apply
                m = re.match(r"`(.*)`$", d[6:].strip())
                cur_fn.shape.append(m.group(1).replace("\\n", "\n"))
                cur_block = None
            elif d.startswith("block "):
                # X15: only the statements from the one starting with the first snippet through the one
                # ending with the second snippet are extracted, as the body of a function whose
                # signature (the block's free variables) is given by the template
                m = re.match(r"(?:(\d+)\s+)?`(.*)`\s+`(.*)`$", d[6:].strip())
                cur_fn.block = (m.group(2).replace("\\n", "\n"), m.group(3).replace("\\n", "\n"), int(m.group(1) or 1))
                cur_block = None
            elif d.startswith("sig "):
                cur_fn.sig = d[4:].strip()
                cur_block = None
            elif d.startswith("tail "):
                cur_fn.tail = d[5:].strip()
                cur_block = None
            elif d.startswith("cut "):
                # X14: the body is extracted up to (excluding) the statement that starts with the
                # first snippet; the rest of the body is replaced by the second snippet (a call of an
                # unconstrained continuation declared in the template)
                m = re.match(r"`(.*)`\s+`(.*)`$", d[4:].strip())
                cur_fn.cut = (m.group(1).replace("\\n", "\n"), m.group(2))
                cur_block = None
            elif d.startswith("loopend "):
                # before the closing brace of the body of the n-th loop
                cur_block = cur_fn.loopends.setdefault(int(d[8:]), [])
            elif d.startswith("afterstmt "):
                # after the END of the statement that contains the snippet (next `;` at nesting depth 0)
                m = re.match(r"(?:(\d+)\s+)?`(.*)`$", d.split(" ", 1)[1].strip())
                blk = []
                cur_fn.afterstmt.append((m.group(2).replace("\\n", "\n"), blk, i + 1, int(m.group(1) or 1)))
                cur_block = blk
            elif d.startswith("before ") or d.startswith("after "):
                kind, rest = d.split(" ", 1)
                m = re.match(r"(?:(\d+)\s+)?`(.*)`$", rest.strip())
                blk = []
                nth = int(m.group(1) or 1)
                (cur_fn.before if kind == "before" else cur_fn.after).append((m.group(2).replace("\\n", "\n"), blk, i + 1, nth))
                cur_block = blk
            elif d == "bodystart":
                cur_block = cur_fn.bodystart
            elif d == "bodyend":
                # before the closing brace of the body (for bodies ending in a statement)
                cur_block = cur_fn.bodyend
            elif d.startswith("opt "):
                cur_fn.opts += d[4:].split()
                if cur_use and cur_fn is cur_use.top:
                    pass
            elif d == "end":
                out.append(("use", cur_use))
                cur_use = cur_fn = cur_block = None
                lit_start = i + 2
            elif d.startswith("include "):
                flush_lit(i)
                out.append(("include", d[8:].strip(), i + 1))
                lit_start = i + 2
            elif d.startswith("#"):
                pass
            else:
                raise SystemExit("%s:%d: unknown directive %r" % (tpath, i + 1, d))
        elif cur_use is not None:
            if cur_block is not None:
                cur_block.append((raw, i + 1))
            elif s:
                raise SystemExit("%s:%d: text outside a block inside //@use" % (tpath, i + 1))
        else:
            if not lit:
                lit_start = i + 1
            lit.append(raw)
    flush_lit(len(lines))
    return out


class Extractor:
    def __init__(self, repo, tpath, vacuity=False):
        self.repo = repo
        self.tpath = tpath
        self.vacuity = vacuity
        self.probed = []     # item ids that carry a vacuity probe
        self.loops_gone = []  # item ids checked loop-free because all their loops vanished
        self.shape_changed = []  # item ids whose body lacks a //@shape snippet: proof script does not apply
        self.pieces = []
        self.log = {}        # item id -> set of rules
        self.hashes = {}     # item id -> sha256 of original text
        self.functions = []  # item ids under contract (with body verified)
        self.trusted = []    # item ids whose body is NOT verified
        self._cache = {}
        self.includes = []
        self._fn_marks = []
        self.fn_regions = []

    def src(self, rel):
        if rel not in self._cache:
            p = os.path.join(self.repo, rel)
            if not os.path.exists(p):
                raise AnchorLost("file missing: " + rel)
            s = open(p).read()
            self._cache[rel] = (s, mask_source(s))
        return self._cache[rel]

    def emit(self, text, file, line):
        self.pieces.append(Piece(text, file, line))

    def emit_block(self, block):
        for (raw, tl) in block:
            # `$strset`: the local the function declares with `HashSet::<&str>::new()` (whatever its name)
            if "$strset" in raw:
                if not getattr(self, "_strset_name", None):
                    raise AnchorLost("a proof hint mentions $strset but the function declares no HashSet<&str> local")
                raw = raw.replace("$strset", self._strset_name)
            self.emit(raw + "\n", self.tpath, tl)

    def locate(self, rel, selector):
        src, masked = self.src(rel)
        if selector.startswith("impl"):
            kind, name = "impl", selector[4:]
        else:
            kind, _, name = selector.partition(" ")
        nospace = lambda t: re.sub(r"\s+", "", t)
        cands = [it for it in list_items(src, masked, 0, len(src), 0)
                 if it[0] == kind and (it[1] == name if kind != "impl" else nospace(it[1]) == nospace(name))]
        if not cands:
            raise AnchorLost("%s: item `%s` not found" % (rel, selector))
        return cands

    def run(self):
        for ent in parse_template(self.tpath):
            if ent[0] == "lit":
                self.emit(ent[1], self.tpath, ent[2])
            elif ent[0] == "include":
                p = os.path.join(os.path.dirname(os.path.abspath(__file__)), "prelude", ent[1])
                self.emit(open(p).read(), p, 1)
                self.includes.append(ent[1])
            else:
                self.do_use(ent[1])
        return self

    def apply_rewrites(self, text, opts, ident):
        log = self.log.setdefault(ident, set())
        text = x1_strip(text, log, "keepdefault" in opts)
        text = x2_error_macros(text, log)
        text = x8_debug_asserts(text, log, "drop" if "x8drop" in opts else "assert")
        for o in opts:
            if o == "noderive":
                text = re.sub(r"#\[derive\(([^\]]*)\)\]", lambda m: (log.add("X1:derive-all-dropped(" + _norm(m.group(1)) + ")"), _nl(m.group(0)))[1], text)
            elif o.startswith("guard:"):
                pass
            elif o.startswith("fields:"):
                text = x10_fields(text, set(o[7:].split(",")), log)
            elif o in OPTS:
                text = OPTS[o](text, log)
            elif o not in ("x8drop", "x4impl", "keepdefault"):
                raise SystemExit("unknown opt " + o)
        if "x7s" not in opts and "fn " in text:
            # X13 for every function: a closure without a contract has an UNKNOWN result in Verus, and a
            # proof that fails for that reason would look like a violation.  With the contract "result ==
            # own body" the closure is either understood or (exec calls in spec position, a non-bool
            # result) rejected outright, which is reported as UNDECIDED.
            text = x13_closure_contracts(text, log)
        return text

    def do_use(self, use):
        src, masked = self.src(use.path)
        cands = self.locate(use.path, use.selector)
        kind = "impl" if use.selector.startswith("impl") else use.selector.split(" ", 1)[0]
        if kind == "impl":
            # several impl blocks may share a header (e.g. two `impl Foo`); search all
            for fs in use.fns:
                found = None
                for (k, name, start, end, kw) in cands:
                    b = find_body_open(masked, kw)
                    for it in list_items(src, masked, b + 1, end - 1, 0):
                        if it[0] == "fn" and it[1] == fs.name:
                            found = (it, name)
                            break
                    if found:
                        break
                if not found:
                    raise AnchorLost("%s: fn `%s` not found in `%s`" % (use.path, fs.name, use.selector))
                fs._found = found
            header = cands[0][1]
            if "x4impl" in use.top.opts:
                self.log.setdefault("%s::impl %s" % (use.path, header), set()).add("X4:Display-impl-as-inherent-impl")
                header = re.split(r"\bfor\b", header)[-1].strip()
            if "x3c" in use.top.opts:
                # the type parameter F of Package<F> disappears with the container model
                header = re.sub(r"^<F[^>]*>\s*", "", header).replace("Package<F>", "Package")
                header = re.sub(r"^<'a, F: 'a>\s*", "", header).replace("Streams<'a, F>", "Streams")
                header = re.sub(r"\b(StreamReader|StreamWriter)<F>", r"\1", header)
            # a trait impl also needs its associated types / consts
            (k, name, start, end, kw) = cands[0]
            b = find_body_open(masked, kw)
            self.emit("impl " + header + " {\n", self.tpath, use.tline)
            for it in list_items(src, masked, b + 1, end - 1, 0):
                if it[0] == "type" and "x4impl" in use.top.opts:
                    continue  # an inherent impl has no associated types (`type Item = ..` of the trait impl)
                if it[0] in ("type", "const"):
                    line = src.count("\n", 0, it[2]) + 1
                    self.emit(src[it[2]:it[3]] + "\n", use.path, line)
            for fs in use.fns:
                it, _ = fs._found
                ident = "%s::<%s>::%s" % (use.path, header, fs.name)
                if fs.block:
                    self.do_block(use.path, src, it[2], it[3], fs, ident)
                else:
                    self.do_fn(use.path, src, it[2], it[3], fs, ident)
            self.emit("}\n", self.tpath, use.tline)
        elif kind == "fn":
            (k, name, start, end, kw) = cands[0]
            ident = "%s::%s" % (use.path, name)
            fs = use.top
            fs.name = name
            self.do_fn(use.path, src, start, end, fs, ident)
        else:
            (k, name, start, end, kw) = cands[0]
            ident = "%s::%s %s" % (use.path, kind, name)
            text = src[start:end]
            self.hashes[ident] = hashlib.sha256(text.encode()).hexdigest()
            for o in use.top.opts:
                if o.startswith("guard:"):
                    nh = norm_hash(text)
                    if nh != o[6:]:
                        raise AnchorLost("%s: text guarded by a trusted prelude spec changed (normalised sha %s, expected %s)" % (ident, nh, o[6:]))
            text = self.apply_rewrites(text, use.top.opts, ident)
            self.emit_block(use.top.attr)
            line = src.count("\n", 0, start) + 1
            self.emit(text + "\n", use.path, line)

    def do_block(self, rel, src, start, end, fs, ident):
        """X15: a block of statements of a function that is itself outside the subset, extracted as a
        function.  Signature and result expression come from the template; the statements are the
        function's own text (after the usual rewrites)."""
        orig = src[start:end]
        m = re.search(r"\bfn\s+([A-Za-z_][A-Za-z0-9_]*)", fs.sig)
        if not m:
            raise SystemExit("//@block without a usable //@sig")
        ident = ident.rsplit("::", 1)[0] + "::" + m.group(1)
        k1 = -1
        for _ in range(fs.block[2]):
            k1 = orig.find(fs.block[0], k1 + 1)
            if k1 < 0:
                break
        if k1 < 0:
            raise AnchorLost("%s: block start `%s` not found" % (ident, fs.block[0]))
        if fs.block[1] == ";":
            # the block is the ONE statement that starts with the first snippet: up to its `;` at depth 0
            om = mask_source(orig)
            k2, depth = k1, 0
            while k2 < len(om):
                ch = om[k2]
                depth += (ch in "([{") - (ch in ")]}")
                if ch == ";" and depth == 0:
                    break
                k2 += 1
            if k2 >= len(om):
                raise AnchorLost("%s: end of the statement starting with `%s` not found" % (ident, fs.block[0]))
            k2 += 1
        else:
            k2 = orig.find(fs.block[1], k1)
            if k2 < 0:
                raise AnchorLost("%s: block end `%s` not found after the block start" % (ident, fs.block[1]))
            k2 += len(fs.block[1])
        seg = orig[k1:k2]
        segm = mask_source(seg)
        depth = 0
        for ch in segm:
            depth += (ch in "([{") - (ch in ")]}")
            if depth < 0:
                break
        if depth != 0:
            raise AnchorLost("%s: the block between the two snippets is not balanced" % ident)
        self.hashes[ident] = hashlib.sha256(seg.encode()).hexdigest()
        text = self.apply_rewrites(seg, fs.opts, ident)
        line0 = src.count("\n", 0, start + k1) + 1
        self.log.setdefault(ident, set()).add("X15:block(%d lines of %s, as `%s`; everything else of the function is dropped)" % (seg.count("\n") + 1, fs.name, m.group(1)))
        self._fn_marks.append([ident, len(self.pieces), None])
        self.emit_block(fs.attr)
        self.functions.append(ident)
        self.emit(fs.sig + "\n", self.tpath, fs.tline)
        self.emit_block(fs.contract)
        self.emit("{\n", self.tpath, fs.tline)
        if self.vacuity and any(re.match(r"\s*requires\b", raw) for (raw, tl) in fs.contract):
            self.emit("        proof { assert(false); } // VACUITY-PROBE\n", self.tpath, fs.tline)
            self.probed.append(ident)
        if fs.bodystart:
            self.emit_block(fs.bodystart)
        # loop invariants and before/after hints, as in do_fn (offsets into the rewritten block)
        inserts = []
        tmask = mask_source(text)
        loops = [mm for mm in re.finditer(r"\b(while|for|loop)\b", tmask)]
        for n, blk in fs.loops.items():
            if n < 1 or n > len(loops):
                raise AnchorLost("%s: loop #%d not found in the block (%d loops)" % (ident, n, len(loops)))
            lb = find_body_open(tmask, loops[n - 1].end())
            inserts.append((lb, blk))
        def nth_of(snip, nth):
            k = -1
            for _ in range(nth):
                k = text.find(snip, k + 1)
                if k < 0:
                    raise AnchorLost("%s: snippet `%s` (occurrence %d) not found in the block" % (ident, snip, nth))
            return k
        for (snip, blk, tl, nth) in fs.before:
            inserts.append((nth_of(snip, nth), blk))
        for (snip, blk, tl, nth) in fs.after:
            inserts.append((nth_of(snip, nth) + len(snip), blk))
        inserts.sort(key=lambda x: x[0])
        pos = 0
        for (off, blk) in inserts:
            self.emit(text[pos:off] + "\n", rel, line0 + text.count("\n", 0, pos))
            self.emit_block(blk)
            pos = off
        self.emit(text[pos:] + "\n", rel, line0 + text.count("\n", 0, pos))
        self.emit((fs.tail or "") + "\n}\n", self.tpath, fs.tline)
        self._fn_marks[-1][2] = len(self.pieces)

    def do_fn(self, rel, src, start, end, fs, ident):
        orig = src[start:end]
        self.hashes[ident] = hashlib.sha256(orig.encode()).hexdigest()
        text = self.apply_rewrites(orig, fs.opts, ident)
        masked = mask_source(text)
        mset = re.search(r"let mut ([a-z_][a-z0-9_]*) = vx_strset_new\(\);", text)
        self._strset_name = mset.group(1) if mset else None
        line0 = src.count("\n", 0, start) + 1
        kw = re.search(r"\bfn\b", masked).start()
        b = find_body_open(masked, kw)
        if b < 0:
            raise AnchorLost("%s: fn without body" % ident)
        bend = match_brace(masked, b)
        if fs.cut:
            k = text.find(fs.cut[0], b)
            if k < 0 or k > bend:
                raise AnchorLost("%s: cut point `%s` not found" % (ident, fs.cut[0]))
            # the cut point must be a statement of the function body itself (nesting depth 1)
            depth = 0
            for ch in masked[b:k]:
                depth += (ch in "([{") - (ch in ")]}")
            if depth != 1:
                raise AnchorLost("%s: cut point `%s` is not a top-level statement of the body" % (ident, fs.cut[0]))
            dropped = text[k:bend]
            text = text[:k] + fs.cut[1] + _nl(dropped) + text[bend:]
            masked = mask_source(text)
            bend = match_brace(masked, b)
            self.log.setdefault(ident, set()).add("X14:cut(the body from `%s` on -- %d lines -- is replaced by the unconstrained continuation `%s`)" % (fs.cut[0], dropped.count("\n") + 1, fs.cut[1]))
        sig = text[:b]
        sig_masked = masked[:b]
        body = text[b:bend + 1]
        body_masked = masked[b:bend + 1]
        # ---- return naming
        if fs.ret:
            depth = 0
            arrow = -1
            for k in range(len(sig_masked) - 1):
                ch = sig_masked[k]
                if ch in "(<[":
                    depth += 1 if ch != "<" else 0
                elif ch in ")]":
                    depth -= 1
                if sig_masked.startswith("->", k) and depth == 0:
                    arrow = k
            if arrow < 0:
                raise AnchorLost("%s: no return type to name" % ident)
            wh = re.search(r"\bwhere\b", sig_masked[arrow:])
            tend = arrow + wh.start() if wh else len(sig)
            ty = sig[arrow + 2:tend]
            sig = sig[:arrow] + "-> (" + fs.ret + ": " + ty.strip() + ")" + _nl(ty) + (" " + sig[tend:] if wh else "")
        # ---- insertions into body: collect (offset, block, order)
        inserts = []
        # loops
        loops = [m for m in re.finditer(r"\b(while|for|loop)\b", body_masked)]
        for n, blk in fs.loops.items():
            if n > len(loops) and not loops:
                # the function no longer has ANY loop: its invariants are moot, the loop-free
                # body is checked against the contract as it stands
                self.log.setdefault(ident, set()).add("X9:loop-invariants-dropped(function has no loop any more)")
                continue
            if n < 1 or n > len(loops):
                raise AnchorLost("%s: loop #%d not found (%d loops)" % (ident, n, len(loops)))
            lb = find_body_open(body_masked, loops[n - 1].end())
            if lb < 0:
                raise AnchorLost("%s: loop #%d has no body" % (ident, n))
            inserts.append((lb, blk))
        for n, blk in fs.loopends.items():
            if n < 1 or n > len(loops):
                raise AnchorLost("%s: loop #%d not found (%d loops)" % (ident, n, len(loops)))
            lb = find_body_open(body_masked, loops[n - 1].end())
            inserts.append((match_brace(body_masked, lb), blk))
        def find_nth(snip, nth):
            k = -1
            for _ in range(nth):
                k = body.find(snip, k + 1)
                if k < 0:
                    raise AnchorLost("%s: snippet `%s` (occurrence %d) not found" % (ident, snip, nth))
            return k
        loops_gone = bool(fs.loops) and not loops
        if loops_gone:
            self.loops_gone.append(ident)
        shape_changed = any(sn not in body for sn in fs.shape)
        if shape_changed:
            self.shape_changed.append(ident)
            self.log.setdefault(ident, set()).add("X9:shape-changed(proof script does not apply; only [script-free] clauses are verdicts)")

        def anchored(snip, nth):
            # a function that lost ALL its loops is checked loop-free: hints anchored on text
            # that vanished with the loops are dropped with the invariants (logged)
            try:
                return find_nth(snip, nth)
            except AnchorLost:
                if loops_gone or shape_changed:
                    self.log.setdefault(ident, set()).add("X9:hint-dropped(anchor vanished with the restructuring)")
                    return None
                raise
        for (snip, blk, tl, nth) in fs.before:
            k = anchored(snip, nth)
            if k is not None:
                inserts.append((k, blk))
        for (snip, blk, tl, nth) in fs.after:
            k = anchored(snip, nth)
            if k is not None:
                inserts.append((k + len(snip), blk))
        for (snip, blk, tl, nth) in fs.afterstmt:
            k = find_nth(snip, nth)
            depth = 0
            while k < len(body_masked):
                ch = body_masked[k]
                if ch in "([{":
                    depth += 1
                elif ch in ")]}":
                    depth -= 1
                elif ch == ";" and depth <= 0:
                    break
                k += 1
            if k >= len(body_masked):
                raise AnchorLost("%s: statement end after `%s` not found" % (ident, snip))
            inserts.append((k + 1, blk))
        if fs.bodystart:
            inserts.append((1, fs.bodystart))
        if self.vacuity and not fs.trusted and any(re.match(r"\s*requires\b", raw) for (raw, tl) in fs.contract):
            # reachability probe behind the precondition: this assertion MUST fail
            inserts.append((1, [("        proof { assert(false); } // VACUITY-PROBE", fs.tline)]))
            self.probed.append(ident)
        if fs.bodyend:
            inserts.append((len(body) - 1, fs.bodyend))
        inserts.sort(key=lambda x: x[0])
        # ---- emit
        self._fn_marks.append([ident, len(self.pieces), None])
        self.emit_block(fs.attr)
        if fs.trusted:
            self.emit("#[verifier::external_body]\n", self.tpath, fs.tline)
            self.trusted.append(ident)
        else:
            self.functions.append(ident)
        self.emit(sig.rstrip() + "\n", rel, line0)
        self.emit_block(fs.contract)
        if fs.trusted:
            # the body is not verified (external_body); it is not emitted at all
            self.emit("{ unimplemented!() }\n", self.tpath, fs.tline)
            self._fn_marks[-1][2] = len(self.pieces)
            return
        pos = 0
        for (off, blk) in inserts:
            seg = body[pos:off]
            self.emit(seg + "\n", rel, line0 + text.count("\n", 0, b + pos))
            self.emit_block(blk)
            pos = off
        self.emit(body[pos:] + "\n", rel, line0 + text.count("\n", 0, b + pos))
        self._fn_marks[-1][2] = len(self.pieces)

    # ------------------------------------------------------------------ #
    def render(self):
        out = []
        linemap = []  # per output line: (file, line)
        starts = {m[1]: m[0] for m in self._fn_marks}
        ends = {m[2]: m[0] for m in self._fn_marks}
        open_fn = {}
        for idx, p in enumerate(self.pieces + [Piece("", None, 0)]):
            if idx in ends:
                self.fn_regions.append((ends[idx], open_fn.pop(ends[idx]), len(out)))
            if idx in starts:
                open_fn[starts[idx]] = len(out) + 1
            if p.file is None:
                break
            t = p.text
            if not t.endswith("\n"):
                t += "\n"
            ls = t.split("\n")[:-1]
            for k, l in enumerate(ls):
                out.append(l)
                linemap.append((p.file, p.line + k))
        return "\n".join(out) + "\n", linemap


def extract(repo, tpath, vacuity=False):
    ex = Extractor(repo, tpath, vacuity).run()
    text, linemap = ex.render()
    meta = {
        "hashes": ex.hashes,
        "rules": {k: sorted(v) for k, v in ex.log.items() if v},
        "functions": ex.functions,
        "trusted_items": ex.trusted,
        "includes": ex.includes,
        "fn_regions": ex.fn_regions,
        "probed": ex.probed,
        "loops_gone": ex.loops_gone,
        "shape_changed": ex.shape_changed,
    }
    return text, linemap, meta


if __name__ == "__main__":
    repo, tpath, outp = sys.argv[1:4]
    try:
        text, linemap, meta = extract(repo, tpath)
    except AnchorLost as e:
        print("ANCHOR-LOST: %s" % e)
        sys.exit(2)
    open(outp, "w").write(text)
    import json
    json.dump({"linemap": linemap, "meta": meta}, open(outp + ".map.json", "w"))
    print("wrote", outp, len(linemap), "lines")
