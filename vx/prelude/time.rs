// ---- prelude/time.rs (trusted std specs: std::time) --------------------------
// Views: a SystemTime is an integer number of nanoseconds relative to the Unix
// epoch (`st_nanos`, negative before 1970); a Duration is a natural number of
// nanoseconds (`dur_nanos`).  ST_MIN()/ST_MAX() are the platform's SystemTime
// range (uninterpreted; only 0 in range is assumed: UNIX_EPOCH is representable).
#[verifier::external_type_specification]
#[verifier::external_body]
pub struct ExSystemTime(std::time::SystemTime);

// (core::time::Duration already has a type specification in vstd)

#[verifier::external_type_specification]
#[verifier::external_body]
pub struct ExSystemTimeError(std::time::SystemTimeError);

pub uninterp spec fn st_nanos(t: SystemTime) -> int;
pub uninterp spec fn dur_nanos(d: Duration) -> nat;
pub uninterp spec fn err_nanos(e: std::time::SystemTimeError) -> nat;
pub uninterp spec fn ST_MIN() -> int;
pub uninterp spec fn ST_MAX() -> int;

pub open spec fn st_in_range(n: int) -> bool { ST_MIN() <= n <= ST_MAX() }

// every SystemTime value lies in the platform range, and the epoch is in it
pub axiom fn axiom_st_range(t: SystemTime)
    ensures st_in_range(st_nanos(t));
pub axiom fn axiom_epoch_in_range()
    ensures ST_MIN() <= 0 <= ST_MAX();

// every Duration is below 2^64 seconds (as_secs returns u64)
pub axiom fn axiom_dur_range(d: Duration)
    ensures dur_nanos(d) < 0x1_0000_0000_0000_0000 * 1_000_000_000;

// X7 shim by name: the extracted code says `UNIX_EPOCH`; it resolves to this
// constant, whose body is std's constant.
#[verifier::external_body]
pub exec const UNIX_EPOCH: SystemTime
    ensures st_nanos(UNIX_EPOCH) == 0
{
    std::time::UNIX_EPOCH
}

// Duration::new(secs, nanos): documented to carry nanos >= 1e9 into secs and
// to panic if that overflows; the spec demands nanos < 1e9 (no carry, no panic).
pub assume_specification[ Duration::new ](secs: u64, nanos: u32) -> (r: Duration)
    requires nanos < 1_000_000_000,
    ensures dur_nanos(r) == secs as nat * 1_000_000_000 + nanos as nat;

pub assume_specification[ Duration::as_secs ](d: &Duration) -> (r: u64)
    ensures r as nat == dur_nanos(*d) / 1_000_000_000;

pub assume_specification[ Duration::subsec_nanos ](d: &Duration) -> (r: u32)
    ensures r as nat == dur_nanos(*d) % 1_000_000_000;

pub assume_specification[ SystemTime::duration_since ](t: &SystemTime, earlier: SystemTime) -> (r: Result<Duration, std::time::SystemTimeError>)
    ensures
        st_nanos(*t) >= st_nanos(earlier) ==> r is Ok && dur_nanos(r->Ok_0) as int == st_nanos(*t) - st_nanos(earlier),
        st_nanos(*t) < st_nanos(earlier) ==> r is Err && err_nanos(r->Err_0) as int == st_nanos(earlier) - st_nanos(*t);

pub assume_specification[ std::time::SystemTimeError::duration ](e: &std::time::SystemTimeError) -> (r: Duration)
    ensures dur_nanos(r) == err_nanos(*e);

pub assume_specification[ SystemTime::checked_add ](t: &SystemTime, d: Duration) -> (r: Option<SystemTime>)
    ensures
        st_in_range(st_nanos(*t) + dur_nanos(d)) ==> r is Some && st_nanos(r->Some_0) == st_nanos(*t) + dur_nanos(d),
        !st_in_range(st_nanos(*t) + dur_nanos(d)) ==> r is None;

pub assume_specification[ SystemTime::checked_sub ](t: &SystemTime, d: Duration) -> (r: Option<SystemTime>)
    ensures
        st_in_range(st_nanos(*t) - dur_nanos(d)) ==> r is Some && st_nanos(r->Some_0) == st_nanos(*t) - dur_nanos(d),
        !st_in_range(st_nanos(*t) - dur_nanos(d)) ==> r is None;

// more documented std integer behaviour (used by plausible rewrites of the tick arithmetic)
pub assume_specification[ u64::saturating_add_signed ](x: u64, d: i64) -> (r: u64)
    ensures
        (x + d) > 0xffff_ffff_ffff_ffff ==> r == 0xffff_ffff_ffff_ffffu64,
        (x + d) < 0 ==> r == 0,
        0 <= (x + d) <= 0xffff_ffff_ffff_ffff ==> r as int == (x + d);
