// ---- prelude/stdnum.rs (trusted std specs not shipped by vstd) ---------------
// Documented behaviour of core::num inherent methods (Rust std docs).
// truncating (round-toward-zero) quotient of mathematical integers, y != 0
pub open spec fn tdiv(x: int, y: int) -> int {
    if x >= 0 && y > 0 { x / y }
    else if x < 0 && y > 0 { -((-x) / y) }
    else if x >= 0 && y < 0 { -(x / (-y)) }
    else { (-x) / (-y) }
}

pub assume_specification[ i32::wrapping_neg ](x: i32) -> (r: i32)
    ensures
        x == i32::MIN ==> r == i32::MIN,
        x != i32::MIN ==> r == -x,
;

// "Wrapping (modular) division ... The only case where wrapping can occur is
//  MIN / -1 ... in which case this function returns MIN itself.  Panics if rhs is 0."
pub assume_specification[ i32::wrapping_div ](x: i32, y: i32) -> (r: i32)
    requires
        y != 0,
    ensures
        (x == i32::MIN && y == -1) ==> r == i32::MIN,
        !(x == i32::MIN && y == -1) ==> r as int == tdiv(x as int, y as int),
;
