// ---- prelude/uuidshim.rs (dependency model: the `uuid` crate, and the std calls around it) ----------
// uuid::Uuid is an opaque 128-bit value here; its formatter and parser are uninterpreted functions
// (TRUSTED: a function of the value / of the text)
pub struct Uuid { pub v: u128 }
pub uninterp spec fn uuid_braced(u: Uuid) -> Seq<char>;        // '{' + hyphenated form + '}'
pub uninterp spec fn uuid_parse(s: Seq<char>) -> Option<Uuid>;
pub uninterp spec fn ascii_upper(s: Seq<char>) -> Seq<char>;
// all leading c removed / all trailing c removed
pub open spec fn trim_start_c(s: Seq<char>, c: char) -> Seq<char>
    decreases s.len()
{
    if s.len() > 0 && s[0] == c { trim_start_c(s.skip(1), c) } else { s }
}
pub open spec fn trim_end_c(s: Seq<char>, c: char) -> Seq<char>
    decreases s.len()
{
    if s.len() > 0 && s.last() == c { trim_end_c(s.drop_last(), c) } else { s }
}
// X7: `format!("{{{}}}", uuid.hyphenated())`
#[verifier::external_body]
pub fn vx_uuid_braced(u: &Uuid) -> (r: String)
    ensures r@ == uuid_braced(*u)
{ unimplemented!() }
// X7: `s.make_ascii_uppercase()`
#[verifier::external_body]
pub fn vx_make_ascii_uppercase(s: &mut String)
    ensures final(s)@ == ascii_upper(old(s)@)
{ s.make_ascii_uppercase() }
// X7: `s.trim_start_matches('c')`, `s.trim_end_matches('c')`
#[verifier::external_body]
pub fn vx_trim_start_char<'a>(s: &'a str, c: char) -> (r: &'a str)
    ensures r@ == trim_start_c(s@, c)
{ s.trim_start_matches(c) }
#[verifier::external_body]
pub fn vx_trim_end_char<'a>(s: &'a str, c: char) -> (r: &'a str)
    ensures r@ == trim_end_c(s@, c)
{ s.trim_end_matches(c) }
// X7: `Uuid::parse_str(s).ok()`
#[verifier::external_body]
pub fn vx_uuid_parse(s: &str) -> (r: Option<Uuid>)
    ensures r == uuid_parse(s@)
{ unimplemented!() }
// ONE assumed fact about the uuid crate: its parser reads back what its formatter prints, also
// upper-cased and with the braces trimmed
pub axiom fn axiom_uuid_roundtrip(u: Uuid)
    ensures uuid_parse(trim_end_c(trim_start_c(ascii_upper(uuid_braced(u)), '{'), '}')) == Some(u);
// the nil UUID (all zero bits)
pub uninterp spec fn uuid_is_nil(u: Uuid) -> bool;
impl Uuid {
    #[verifier::external_body]
    pub fn is_nil(&self) -> (r: bool)
        ensures r == uuid_is_nil(*self)
    { unimplemented!() }
    #[verifier::external_body]
    pub fn nil() -> (r: Uuid)
        ensures uuid_is_nil(r)
    { unimplemented!() }
}
