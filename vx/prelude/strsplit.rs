// ---- prelude/strsplit.rs (trusted shims: splitting a string at the first separator) -------
// X7 call shim for `s.splitn(2, sep).collect()`: at most two parts, split at the first `sep`
pub open spec fn first_of(s: Seq<char>, c: char) -> int
    decreases s.len()
{
    if s.len() == 0 { -1 } else if s[0] == c { 0 } else { let r = first_of(s.skip(1), c); if r < 0 { -1 } else { r + 1 } }
}
pub open spec fn first_dash(s: Seq<char>) -> int { first_of(s, '-') }

#[verifier::external_body]
pub fn vx_splitn2<'a>(s: &'a str, sep: char) -> (r: Vec<&'a str>)
    ensures
        first_of(s@, sep) < 0 ==> r@.len() == 1 && r@[0]@ == s@,
        first_of(s@, sep) >= 0 ==> r@.len() == 2 && r@[0]@ == s@.take(first_of(s@, sep)) && r@[1]@ == s@.skip(first_of(s@, sep) + 1),
{
    s.splitn(2, sep).collect()
}

// first_of is the index of the FIRST occurrence (or -1 when there is none)
pub proof fn lemma_first_of(s: Seq<char>, c: char)
    ensures
        -1 <= first_of(s, c) < s.len(),
        first_of(s, c) >= 0 ==> s[first_of(s, c)] == c,
        forall|i: int| 0 <= i < (if first_of(s, c) < 0 { s.len() as int } else { first_of(s, c) }) ==> s[i] != c,
    decreases s.len()
{
    if s.len() > 0 && s[0] != c {
        lemma_first_of(s.skip(1), c);
        let f = first_of(s.skip(1), c);
        assert forall|i: int| 0 <= i < (if first_of(s, c) < 0 { s.len() as int } else { first_of(s, c) }) implies s[i] != c by {
            if i > 0 { assert(s[i] == s.skip(1)[i - 1]); }
        }
        if f >= 0 { assert(s[f + 1] == s.skip(1)[f]); }
    }
}

// conversely: an index holding c with no c before it IS first_of
pub proof fn lemma_first_of_is(s: Seq<char>, c: char, k: int)
    requires 0 <= k < s.len(), s[k] == c, forall|i: int| 0 <= i < k ==> s[i] != c
    ensures first_of(s, c) == k
    decreases s.len()
{
    if k > 0 {
        assert(s[0] != c);
        assert forall|i: int| 0 <= i < k - 1 implies s.skip(1)[i] != c by { assert(s.skip(1)[i] == s[i + 1]); }
        lemma_first_of_is(s.skip(1), c, k - 1);
    }
}
