// ---- prelude/psfmt_r.rs: the READER-side layout of a property-set stream (header, section, (id, offset) table),
// written as the chain of reads the format implies.  Shared text of groups `readers` and `pspair`.
// byte k onwards (nothing if k is past the end: seeking past the end is not an error by itself)
pub open spec fn at(b: Seq<u8>, k: int) -> Seq<u8> { if k <= b.len() { b.skip(k) } else { Seq::<u8>::empty() } }
// header: byte-order mark, version, OS version, OS (2 bytes each), CLSID (16), reserved (4),
// FMTID (16), then the 32-bit section offset -- written as the chain of reads the format implies
pub open spec fn hdr_rest(b: Seq<u8>) -> Seq<u8> { b.skip(2).skip(2).skip(2).skip(2).skip(16).skip(4).skip(16) }
pub open spec fn sec_off(b: Seq<u8>) -> int { u32_le(hdr_rest(b)) as int }
// the section: a 32-bit size, a 32-bit count n, then n (id, offset) pairs; offsets are relative to the section
pub open spec fn sec_count(b: Seq<u8>) -> int { u32_le(at(b, sec_off(b)).skip(4)) as int }
pub open spec fn tab_at(b: Seq<u8>, j: int) -> Seq<u8>
    decreases j
{
    if j <= 0 { at(b, sec_off(b)).skip(4).skip(4) } else { tab_at(b, j - 1).skip(4).skip(4) }
}
pub open spec fn tab_id(b: Seq<u8>, j: int) -> u32 { u32_le(tab_at(b, j)) }
pub open spec fn tab_off(b: Seq<u8>, j: int) -> u32 { u32_le(tab_at(b, j).skip(4)) }
pub open spec fn val_at(b: Seq<u8>, j: int) -> Seq<u8> { at(b, sec_off(b) + tab_off(b, j) as int) }

// what PropertySet::read guarantees about its result (map m, code page cp) for bytes b
pub open spec fn read_as(b: Seq<u8>, m: Map<u32, PropertyValue>, cp: CodePage) -> bool {
    &&& (forall|j: int| 0 <= j < sec_count(b) ==> m.contains_key(#[trigger] tab_id(b, j)) && pv_is(val_at(b, j), cp, m[tab_id(b, j)]))
    &&& (forall|k: u32| #[trigger] m.contains_key(k) ==> exists|j: int| 0 <= j < sec_count(b) && tab_id(b, j) == k)
}
// what PropertySet::read guarantees about the code page cp2 of its result
pub open spec fn read_cp(b: Seq<u8>, cp2: CodePage) -> bool {
    &&& (forall|j: int| 0 <= j < sec_count(b) && #[trigger] tab_id(b, j) == 1u32 ==>
            exists|x: i16| pv_is(val_at(b, j), CodePage::Utf8, PropertyValue::I2(x)) && cp_of_id((x as u16) as int) == Some(cp2))
    &&& ((forall|j: int| 0 <= j < sec_count(b) ==> #[trigger] tab_id(b, j) != 1u32) ==> cp2 == CodePage::Utf8)
}
