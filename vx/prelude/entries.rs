// ---- prelude/entries.rs (trusted model of cfb::Entries / cfb::Entry, group `streams`) ------
// `CompoundFile::read_root_storage()` yields the directory entries of the root storage one by
// one.  The model: a fixed sequence of (is_stream, name) pairs and a position.
pub struct VEntry { pub stream: bool, pub name: String }
pub struct VEntries { pub all: Ghost<Seq<(bool, Seq<char>)>>, pub pos: Ghost<int> }

impl VEntry {
    pub closed spec fn spec_is_stream(&self) -> bool { self.stream }
    pub closed spec fn spec_name(&self) -> Seq<char> { self.name@ }
    #[verifier::external_body]
    pub fn is_stream(&self) -> (r: bool)
        ensures r == self.spec_is_stream()
    { unimplemented!() }
    #[verifier::external_body]
    pub fn name(&self) -> (r: &str)
        ensures r@ == self.spec_name()
    { unimplemented!() }
}
impl VEntries {
    pub closed spec fn entries(&self) -> Seq<(bool, Seq<char>)> { self.all@ }
    pub closed spec fn position(&self) -> int { self.pos@ }
    pub open spec fn wf(&self) -> bool { 0 <= self.position() <= self.entries().len() }
    #[verifier::external_body]
    pub fn next(&mut self) -> (r: Option<VEntry>)
        requires old(self).wf()
        ensures
            final(self).wf(),
            final(self).entries() == old(self).entries(),
            match r {
                Some(e) => old(self).position() < old(self).entries().len()
                    && final(self).position() == old(self).position() + 1
                    && e.spec_is_stream() == old(self).entries()[old(self).position()].0
                    && e.spec_name() == old(self).entries()[old(self).position()].1,
                None => old(self).position() == old(self).entries().len() && final(self).position() == old(self).position(),
            },
    { unimplemented!() }
}
