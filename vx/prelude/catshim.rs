// ---- prelude/catshim.rs (trusted std specs and X7s call shims for the category grammars) -------------
// char classification, usable in spec position too (closure contracts repeat the closure body)
pub open spec fn vx_is_lower(c: &char) -> bool { 'a' <= *c && *c <= 'z' }
#[verifier::when_used_as_spec(vx_is_lower)]
pub assume_specification[ char::is_ascii_lowercase ](c: &char) -> (r: bool) ensures r == vx_is_lower(c);
pub open spec fn vx_is_upper(c: &char) -> bool { 'A' <= *c && *c <= 'Z' }
#[verifier::when_used_as_spec(vx_is_upper)]
pub assume_specification[ char::is_ascii_uppercase ](c: &char) -> (r: bool) ensures r == vx_is_upper(c);
pub open spec fn vx_is_digit(c: &char) -> bool { '0' <= *c && *c <= '9' }
#[verifier::when_used_as_spec(vx_is_digit)]
pub assume_specification[ char::is_ascii_digit ](c: &char) -> (r: bool) ensures r == vx_is_digit(c);
pub open spec fn vx_is_alpha(c: &char) -> bool { vx_is_lower(c) || vx_is_upper(c) }
#[verifier::when_used_as_spec(vx_is_alpha)]
pub assume_specification[ char::is_ascii_alphabetic ](c: &char) -> (r: bool) ensures r == vx_is_alpha(c);
pub open spec fn vx_is_alnum(c: &char) -> bool { vx_is_alpha(c) || vx_is_digit(c) }
#[verifier::when_used_as_spec(vx_is_alnum)]
pub assume_specification[ char::is_ascii_alphanumeric ](c: &char) -> (r: bool) ensures r == vx_is_alnum(c);

// UTF-8 length of a character and of a character sequence
pub open spec fn u8len(c: char) -> int { if (c as u32) < 0x80 { 1 } else if (c as u32) < 0x800 { 2 } else if (c as u32) < 0x10000 { 3 } else { 4 } }
pub open spec fn blen(s: Seq<char>) -> int
    decreases s.len()
{
    if s.len() == 0 { 0 } else { blen(s.drop_last()) + u8len(s.last()) }
}
// index of the first / last occurrence of c in s, or -1
pub open spec fn first_of(s: Seq<char>, c: char) -> int
    decreases s.len()
{
    if s.len() == 0 { -1 } else if s[0] == c { 0 } else { let r = first_of(s.skip(1), c); if r < 0 { -1 } else { r + 1 } }
}
pub open spec fn last_of(s: Seq<char>, c: char) -> int
    decreases s.len()
{
    if s.len() == 0 { -1 } else if s.last() == c { s.len() - 1 } else { last_of(s.drop_last(), c) }
}
// the pieces of s between the occurrences of c (always at least one piece)
pub open spec fn pieces(s: Seq<char>, c: char) -> Seq<Seq<char>>
    decreases s.len()
{
    let k = first_of(s, c);
    if k < 0 || k >= s.len() { seq![s] } else { seq![s.take(k)] + pieces(s.skip(k + 1), c) }
}
// std's integer parsers and the uuid crate's parser: uninterpreted predicates (TRUSTED: total, a function of the text)
pub uninterp spec fn parses_i16(s: Seq<char>) -> bool;
pub uninterp spec fn parses_i32(s: Seq<char>) -> bool;
pub uninterp spec fn parses_u16(s: Seq<char>) -> bool;
pub uninterp spec fn parses_uuid(s: Seq<char>) -> bool;
pub open spec fn vx_parse_ok_i16_spec(s: &str) -> bool { parses_i16(s@) }
pub open spec fn vx_parse_ok_i32_spec(s: &str) -> bool { parses_i32(s@) }
pub open spec fn vx_parse_ok_u16_spec(s: &str) -> bool { parses_u16(s@) }
pub open spec fn vx_uuid_parse_ok_spec(s: &str) -> bool { parses_uuid(s@) }
// X7s: `e.parse::<T>().is_ok()`, `Uuid::parse_str(e).is_ok()`
#[verifier::external_body]
#[verifier::when_used_as_spec(vx_parse_ok_i16_spec)]
pub fn vx_parse_ok_i16(s: &str) -> (r: bool) ensures r == parses_i16(s@) { s.parse::<i16>().is_ok() }
#[verifier::external_body]
#[verifier::when_used_as_spec(vx_parse_ok_i32_spec)]
pub fn vx_parse_ok_i32(s: &str) -> (r: bool) ensures r == parses_i32(s@) { s.parse::<i32>().is_ok() }
#[verifier::external_body]
#[verifier::when_used_as_spec(vx_parse_ok_u16_spec)]
pub fn vx_parse_ok_u16(s: &str) -> (r: bool) ensures r == parses_u16(s@) { s.parse::<u16>().is_ok() }
#[verifier::external_body]
#[verifier::when_used_as_spec(vx_uuid_parse_ok_spec)]
pub fn vx_uuid_parse_ok(s: &str) -> (r: bool) ensures r == parses_uuid(s@) { unimplemented!() }

// X7s: `.len()` by the receiver's type (the rewrite is textual, the resolution is rustc's)
pub trait VxLen {
    spec fn vx_len_spec(&self) -> int;
    fn vx_len(&self) -> (r: usize) ensures r as int == self.vx_len_spec();
}
impl VxLen for str {
    open spec fn vx_len_spec(&self) -> int { blen(self@) }
    #[verifier::external_body]
    fn vx_len(&self) -> (r: usize) { self.len() }
}
impl<T> VxLen for Vec<T> {
    open spec fn vx_len_spec(&self) -> int { self@.len() as int }
    #[verifier::external_body]
    fn vx_len(&self) -> (r: usize) { self.len() }
}

// model of core::str::Split<'a, char>: the pieces still to be yielded
pub struct VSplit<'a> { pub v: Vec<&'a str>, pub pos: usize }
impl<'a> VSplit<'a> {
    pub uninterp spec fn rem(&self) -> Seq<Seq<char>>;
    #[verifier::external_body]
    pub fn clone(&self) -> (r: VSplit<'a>) ensures r.rem() == self.rem() { unimplemented!() }
    #[verifier::external_body]
    pub fn count(self) -> (r: usize) ensures r as int == self.rem().len() { unimplemented!() }
    // `all` stops at the first piece for which the closure answers false; what it reports is about
    // the answers the closure gave (a closure's contract says what an answer implies, not which answer comes)
    #[verifier::external_body]
    pub fn all<F: Fn(&'a str) -> bool>(&mut self, f: F) -> (r: bool)
        requires forall|p: &'a str| #[trigger] f.requires((p,))
        ensures
            r ==> forall|i: int| 0 <= i < old(self).rem().len() ==> exists|p: &'a str| p@ == #[trigger] old(self).rem()[i] && f.ensures((p,), true),
            !r ==> exists|i: int, p: &'a str| #![trigger f.ensures((p,), false), old(self).rem()[i]] 0 <= i < old(self).rem().len() && p@ == old(self).rem()[i] && f.ensures((p,), false),
    { unimplemented!() }
}

// X7s: str methods by name and kind of pattern argument (closure or char literal): `e.m(arg)` -> `vx_m(e, arg)`.
// A closure's contract says what an answer implies, not which answer comes; so the shims report
// the answers the closure gave.
#[verifier::external_body]
pub fn vx_chars_any<F: Fn(char) -> bool>(s: &str, f: F) -> (r: bool)
    requires forall|c: char| #[trigger] f.requires((c,))
    ensures
        r ==> exists|i: int| 0 <= i < s@.len() && f.ensures((#[trigger] s@[i],), true),
        !r ==> forall|i: int| 0 <= i < s@.len() ==> f.ensures((#[trigger] s@[i],), false),
{ s.chars().any(f) }
#[verifier::external_body]
pub fn vx_chars_all<F: Fn(char) -> bool>(s: &str, f: F) -> (r: bool)
    requires forall|c: char| #[trigger] f.requires((c,))
    ensures
        r ==> forall|i: int| 0 <= i < s@.len() ==> f.ensures((#[trigger] s@[i],), true),
        !r ==> exists|i: int| 0 <= i < s@.len() && f.ensures((#[trigger] s@[i],), false),
{ s.chars().all(f) }
#[verifier::external_body]
pub fn vx_starts_with_pred<F: Fn(char) -> bool>(s: &str, f: F) -> (r: bool)
    requires forall|c: char| #[trigger] f.requires((c,))
    ensures
        r ==> s@.len() > 0 && f.ensures((s@[0],), true),
        !r ==> s@.len() == 0 || f.ensures((s@[0],), false),
{ s.starts_with(f) }
#[verifier::external_body]
pub fn vx_contains_pred<F: Fn(char) -> bool>(s: &str, f: F) -> (r: bool)
    requires forall|c: char| #[trigger] f.requires((c,))
    ensures
        r ==> exists|i: int| 0 <= i < s@.len() && f.ensures((#[trigger] s@[i],), true),
        !r ==> forall|i: int| 0 <= i < s@.len() ==> f.ensures((#[trigger] s@[i],), false),
{ s.contains(f) }
#[verifier::external_body]
pub fn vx_starts_with_char(s: &str, c: char) -> (r: bool)
    ensures r == (s@.len() > 0 && s@[0] == c)
{ s.starts_with(c) }
#[verifier::external_body]
pub fn vx_ends_with_char(s: &str, c: char) -> (r: bool)
    ensures r == (s@.len() > 0 && s@.last() == c)
{ s.ends_with(c) }
#[verifier::external_body]
pub fn vx_contains_char(s: &str, c: char) -> (r: bool)
    ensures r == (first_of(s@, c) >= 0)
{ s.contains(c) }
#[verifier::external_body]
pub fn vx_strip_prefix_char<'a>(s: &'a str, c: char) -> (r: Option<&'a str>)
    ensures
        s@.len() > 0 && s@[0] == c ==> r is Some && r->Some_0@ == s@.skip(1),
        !(s@.len() > 0 && s@[0] == c) ==> r is None,
{ s.strip_prefix(c) }
#[verifier::external_body]
pub fn vx_split_char<'a>(s: &'a str, c: char) -> (r: VSplit<'a>)
    ensures r.rem() == pieces(s@, c)
{ unimplemented!() }
// `s.rsplitn(2, c).collect()`: split at the LAST c, the part after it first
#[verifier::external_body]
pub fn vx_rsplitn2_char<'a>(s: &'a str, c: char) -> (r: Vec<&'a str>)
    ensures
        last_of(s@, c) < 0 ==> r@.len() == 1 && r@[0]@ == s@,
        last_of(s@, c) >= 0 ==> r@.len() == 2 && r@[0]@ == s@.skip(last_of(s@, c) + 1) && r@[1]@ == s@.take(last_of(s@, c)),
{ s.rsplitn(2, c).collect() }
// `s.splitn(2, c).collect()`: split at the FIRST c
#[verifier::external_body]
pub fn vx_splitn2_char<'a>(s: &'a str, c: char) -> (r: Vec<&'a str>)
    ensures
        first_of(s@, c) < 0 ==> r@.len() == 1 && r@[0]@ == s@,
        first_of(s@, c) >= 0 ==> r@.len() == 2 && r@[0]@ == s@.take(first_of(s@, c)) && r@[1]@ == s@.skip(first_of(s@, c) + 1),
{ s.splitn(2, c).collect() }
#[verifier::external_body]
pub fn vx_split_once_char<'a>(s: &'a str, c: char) -> (r: Option<(&'a str, &'a str)>)
    ensures
        first_of(s@, c) < 0 ==> r is None,
        first_of(s@, c) >= 0 ==> r is Some && r->Some_0.0@ == s@.take(first_of(s@, c)) && r->Some_0.1@ == s@.skip(first_of(s@, c) + 1),
{ s.split_once(c) }
#[verifier::external_body]
pub fn vx_rsplit_once_char<'a>(s: &'a str, c: char) -> (r: Option<(&'a str, &'a str)>)
    ensures
        last_of(s@, c) < 0 ==> r is None,
        last_of(s@, c) >= 0 ==> r is Some && r->Some_0.0@ == s@.take(last_of(s@, c)) && r->Some_0.1@ == s@.skip(last_of(s@, c) + 1),
{ s.rsplit_once(c) }
// `&s[from..to]` PANICS unless both ends are character boundaries inside s: that is the precondition
#[verifier::external_body]
pub fn vx_str_range<'a>(s: &'a str, from: usize, to: usize) -> (r: &'a str)
    requires exists|k: int, m: int| 0 <= k <= m <= s@.len() && blen(s@.take(k)) == from as int && blen(s@.take(m)) == to as int
    ensures forall|k: int, m: int| 0 <= k <= m <= s@.len() && blen(s@.take(k)) == from as int && blen(s@.take(m)) == to as int
        ==> r@ == #[trigger] s@.subrange(k, m)
{ &s[from..to] }
// `v.reverse()` on a Vec
#[verifier::external_body]
pub fn vx_vec_reverse<T>(v: &mut Vec<T>)
    ensures
        final(v)@.len() == old(v)@.len(),
        forall|i: int| 0 <= i < old(v)@.len() ==> #[trigger] final(v)@[i] == old(v)@[old(v)@.len() - 1 - i],
{ v.reverse() }

// Option::map_or with a closure (a natural way to write "absent or short enough")
pub assume_specification<T, U, F: FnOnce(T) -> U + core::marker::Destruct>[ Option::<T>::map_or ](o: Option<T>, d: U, f: F) -> (r: U)
    where U: core::marker::Destruct
    requires o is Some ==> f.requires((o->Some_0,))
    ensures
        o is None ==> r == d,
        o is Some ==> f.ensures((o->Some_0,), r);

// `s.trim_start_matches('c')`, `s.trim_end_matches('c')`: ALL leading / trailing c removed
pub open spec fn trim_start_c(s: Seq<char>, c: char) -> Seq<char>
    decreases s.len()
{
    if s.len() > 0 && s[0] == c { trim_start_c(s.skip(1), c) } else { s }
}
pub open spec fn trim_end_c(s: Seq<char>, c: char) -> Seq<char>
    decreases s.len()
{
    if s.len() > 0 && s.last() == c { trim_end_c(s.drop_last(), c) } else { s }
}
#[verifier::external_body]
pub fn vx_trim_start_char<'a>(s: &'a str, c: char) -> (r: &'a str)
    ensures r@ == trim_start_c(s@, c)
{ s.trim_start_matches(c) }
#[verifier::external_body]
pub fn vx_trim_end_char<'a>(s: &'a str, c: char) -> (r: &'a str)
    ensures r@ == trim_end_c(s@, c)
{ s.trim_end_matches(c) }
