// ---- prelude/strspec.rs (trusted std specs: str / char / slices) -------------
// `s.chars().count()`: vstd views `s.chars()` as an iterator whose remaining
// items are the chars of s; count() is their number.
pub assume_specification<'a>[ <core::str::Chars<'a> as Iterator>::count ](it: core::str::Chars<'a>) -> (r: usize)
    ensures r as int == vstd::std_specs::iter::IteratorSpec::remaining(&it).len();

// `<[T]>::contains(&x)`: true iff some element equals x (by T's PartialEq).
pub uninterp spec fn vx_slice_contains<T>(s: &[T], x: &T) -> bool;

pub assume_specification<T: PartialEq>[ <[T]>::contains ](s: &[T], x: &T) -> (r: bool)
    ensures r == vx_slice_contains(s, x);

// for String elements, PartialEq is equality of the character sequences
pub axiom fn axiom_contains_string()
    ensures forall|s: &[String], x: &String| #[trigger] vx_slice_contains(s, x) == (exists|i: int| 0 <= i < s@.len() && #[trigger] s@[i]@ == x@);

// byte length of a String: the length of its UTF-8 encoding (uninterpreted; it is
// NOT the number of chars, so code that confuses the two fails its contract)
pub uninterp spec fn vx_utf8_len(s: Seq<char>) -> nat;
pub assume_specification[ String::len ](s: &String) -> (r: usize)
    ensures r as nat == vx_utf8_len(s@);

// `s.starts_with(c)` for a char pattern.  The pattern parameter is generic
// (unstable trait core::str::pattern::Pattern), so the specification is stated
// through an uninterpreted predicate plus an axiom for P = char.
pub uninterp spec fn vx_starts_with<P>(s: Seq<char>, p: P) -> bool;
pub assume_specification<P: core::str::pattern::Pattern>[ str::starts_with::<P> ](s: &str, p: P) -> (r: bool)
    ensures r == vx_starts_with(s@, p);
pub broadcast axiom fn axiom_starts_with_char(s: Seq<char>, c: char)
    ensures #[trigger] vx_starts_with(s, c) == (s.len() > 0 && s[0] == c);

// X7 call shim for `s.encode_utf16().count()` (Iterator::count is a provided
// trait method for EncodeUtf16: no assume_specification possible): the number
// of UTF-16 code units of s.
pub open spec fn utf16_len(s: Seq<char>) -> nat
    decreases s.len()
{
    if s.len() == 0 { 0 } else { utf16_len(s.drop_last()) + (if s.last() as u32 >= 0x10000 { 2nat } else { 1nat }) }
}
#[verifier::external_body]
pub fn vx_utf16_count(s: &String) -> (r: usize)
    ensures r as nat == utf16_len(s@)
{
    s.encode_utf16().count()
}
