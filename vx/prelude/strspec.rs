// ---- prelude/strspec.rs (trusted std specs: str / char / slices) -------------
// `s.chars().count()`: vstd views `s.chars()` as an iterator whose remaining
// items are the chars of s; count() is their number.
pub assume_specification<'a>[ <core::str::Chars<'a> as Iterator>::count ](it: core::str::Chars<'a>) -> (r: usize)
    ensures r as int == vstd::std_specs::iter::IteratorSpec::remaining(&it).len();

// `<[T]>::contains(&x)`: true iff some element equals x (by T's PartialEq).
pub uninterp spec fn vx_slice_contains<T>(s: &[T], x: &T) -> bool;

pub assume_specification<T: PartialEq>[ <[T]>::contains ](s: &[T], x: &T) -> (r: bool)
    ensures r == vx_slice_contains(s, x);

// for String elements, PartialEq is equality of the character sequences
pub axiom fn axiom_contains_string()
    ensures forall|s: &[String], x: &String| #[trigger] vx_slice_contains(s, x) == (exists|i: int| 0 <= i < s@.len() && #[trigger] s@[i]@ == x@);

// byte length of a String: the length of its UTF-8 encoding (uninterpreted; it is
// NOT the number of chars, so code that confuses the two fails its contract)
pub uninterp spec fn vx_utf8_len(s: Seq<char>) -> nat;
pub assume_specification[ String::len ](s: &String) -> (r: usize)
    ensures r as nat == vx_utf8_len(s@);
