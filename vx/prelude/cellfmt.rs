// ---- prelude/cellfmt.rs: the WRITER-side cell format, shared text of groups `serial` (where the
// writers are proved against it) and `rows` (where it meets the reader-side format in the pair lemma)
pub closed spec fn sref_num(r: StringRef) -> int { r.0 as int }
pub open spec fn sref_ok(r: StringRef) -> bool { 0 < sref_num(r) <= 0xff_ffff }
pub open spec fn opt_ref_ok(r: Option<StringRef>) -> bool { match r { Some(x) => sref_ok(x), None => true } }
pub open spec fn opt_ref_num(r: Option<StringRef>) -> int { match r { Some(x) => sref_num(x), None => 0 } }
pub open spec fn vref_ok(v: ValueRef) -> bool { match v { ValueRef::Str(r) => sref_ok(r), _ => true } }

// bytes of a (nullable) string reference: 2 or 3 little-endian bytes, 0 = null
pub open spec fn ref_bytes(n: int, long: bool) -> Seq<u8> {
    if long { le16((n as u32 & 0xffff) as u16) + seq![((n as u32 >> 16) & 0xff) as u8] } else { le16(n as u16) }
}
pub open spec fn width_of(ct: ColumnType, long: bool) -> int {
    match ct { ColumnType::Int16 => 2, ColumnType::Int32 => 4, ColumnType::Str(_) => if long { 3 } else { 2 } }
}
// a string reference that does not fit two-byte mode
pub open spec fn wide_ref(v: ValueRef, long: bool) -> bool {
    match v { ValueRef::Str(r) => !long && sref_num(r) > 0xffff, _ => false }
}
// a cell value of the column's kind
pub open spec fn type_ok(ct: ColumnType, v: ValueRef) -> bool {
    match ct {
        ColumnType::Int16 => !(v is Str),
        ColumnType::Int32 => !(v is Str),
        ColumnType::Str(_) => !(v is Int),
    }
}
// ... inside the storable range of the column (C07 guarantees this for stored cells)
pub open spec fn cell_valid(ct: ColumnType, v: ValueRef) -> bool {
    type_ok(ct, v) && match (ct, v) {
        (ColumnType::Int16, ValueRef::Int(n)) => -0x8000 < n && n <= 0x7fff,
        (ColumnType::Int32, ValueRef::Int(n)) => -0x8000_0000 < n,
        _ => true,
    }
}
// the format: integers offset-binary with zero meaning null; strings as references
pub open spec fn cell_bytes(ct: ColumnType, v: ValueRef, long: bool) -> Seq<u8> {
    match ct {
        ColumnType::Int16 => match v { ValueRef::Int(n) => le16((n + 0x8000) as u16), _ => le16(0) },
        ColumnType::Int32 => match v { ValueRef::Int(n) => le32((n + 0x8000_0000) as u32), _ => le32(0) },
        ColumnType::Str(_) => match v { ValueRef::Str(r) => ref_bytes(sref_num(r), long), _ => ref_bytes(0, long) },
    }
}

