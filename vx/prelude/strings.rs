// ---- prelude/strings.rs (trusted) --------------------------------------------
// X7 call shim: `str1 + &str2` on Strings (Verus: internal error on String: Add).
// Body = the original expression; the ensures is the documented behaviour of
// `impl Add<&str> for String` (appends the right operand).
#[verifier::external_body]
pub fn vx_concat(a: String, b: &String) -> (r: String)
    ensures r@ == a@ + b@
{
    a + b
}
