// ---- prelude/strset.rs: the local `HashSet<&str>` of column names, as a set of texts (TRUSTED model of std's HashSet
// with string keys: equality is equality of the text)
pub uninterp spec fn strset_view(s: &HashSet<&str>) -> Set<Seq<char>>;
#[verifier::external_body]
fn vx_strset_new<'a>() -> (r: HashSet<&'a str>)
    ensures strset_view(&r) == Set::<Seq<char>>::empty()
{ HashSet::new() }
#[verifier::external_body]
fn vx_strset_contains<'a>(s: &HashSet<&'a str>, x: &'a str) -> (r: bool)
    ensures r == strset_view(s).contains(x@)
{ s.contains(x) }
#[verifier::external_body]
fn vx_strset_insert<'a>(s: &mut HashSet<&'a str>, x: &'a str) -> (r: bool)
    ensures strset_view(final(s)) == strset_view(old(s)).insert(x@), r == !strset_view(old(s)).contains(x@)
{ s.insert(x) }

