// ---- prelude/tplshim.rs (trusted shims for the "template" property code of summary.rs) -----
// Every shim's body is the original expression; its `ensures` is the std-library behaviour
// the proof relies on (listed among the assumptions of C10).

// `s.split_once(c).map_or(&**s, |x| x.0)`: the text before the first c (all of s if none)
pub open spec fn before_first(s: Seq<char>, c: char) -> Seq<char> {
    if first_of(s, c) < 0 { s } else { s.take(first_of(s, c)) }
}
// the text after the first c (empty if there is none)
pub open spec fn after_first(s: Seq<char>, c: char) -> Seq<char> {
    if first_of(s, c) < 0 { Seq::<char>::empty() } else { s.skip(first_of(s, c) + 1) }
}
#[verifier::external_body]
pub fn vx_before_first<'a>(s: &'a String, c: char) -> (r: &'a str)
    ensures r@ == before_first(s@, c)
{
    s.split_once(c).map_or(&**s, |x| x.0)
}

// `x.into()` at S = String (`impl<T> From<T> for T`): the identity
#[verifier::external_body]
pub fn vx_into_string(s: String) -> (r: String)
    ensures r == s
{
    s.into()
}
// `.into()` of a &str literal: String::from
#[verifier::external_body]
pub fn vx_string_from(s: &str) -> (r: String)
    ensures r@ == s@
{
    s.into()
}

// `format!("{};{}", a, b)` for two Strings: a, ';', b
#[verifier::external_body]
pub fn vx_join_semi(a: String, b: String) -> (r: String)
    ensures r@ == a@ + seq![';'] + b@
{
    format!("{};{}", a, b)
}

// `format!("{}", code)` for a u16: its decimal digits (uninterpreted; what matters is that the
// parser below inverts it)
pub uninterp spec fn decimal_u16(x: u16) -> Seq<char>;
#[verifier::external_body]
pub fn vx_decimal_u16(x: u16) -> (r: String)
    ensures r@ == decimal_u16(x)
{
    format!("{}", x)
}

// the language list text: decimal codes separated by ','
pub open spec fn join_codes(codes: Seq<u16>) -> Seq<char>
    decreases codes.len()
{
    if codes.len() == 0 { Seq::<char>::empty() }
    else if codes.len() == 1 { decimal_u16(codes[0]) }
    else { join_codes(codes.drop_last()) + seq![','] + decimal_u16(codes.last()) }
}

// `s.split(',').filter_map(|code| code.parse().ok()).map(Language::from_code).collect()`:
// the codes a language list text denotes (uninterpreted), with the one std fact assumed:
// a list of u16 printed in decimal and joined by ',' parses back to the same list
// (u16 Display / FromStr are inverse; digits contain no ','; "" parses to nothing).
pub uninterp spec fn parse_codes(s: Seq<char>) -> Seq<u16>;
pub axiom fn axiom_parse_join(codes: Seq<u16>)
    ensures parse_codes(join_codes(codes)) == codes;

#[verifier::external_body]
pub fn vx_parse_languages(s: &str) -> (r: Vec<Language>)
    ensures
        r@.len() == parse_codes(s@).len(),
        forall|i: int| 0 <= i < r@.len() ==> lang_code(#[trigger] r@[i]) == parse_codes(s@)[i],
{
    s.split(',').filter_map(|code| code.parse().ok()).map(Language::from_code).collect()
}

// std String / str operations used by the template code
// (String::push is specified by vstd)
// (String::push_str is specified by vstd)
// (str::is_empty is specified by vstd)
