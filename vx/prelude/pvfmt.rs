// ---- prelude/pvfmt.rs: the WRITER-side format of a typed property value, shared text of groups
// `serial` (PropertyValue::write is proved against it) and `readers` (where it meets the
// reader-side format pv_is in the pair lemma)
// the code-page encoder: an uninterpreted function of (page, text) (dependency: encoding_rs)
pub uninterp spec fn enc_bytes(cp: CodePage, s: Seq<char>) -> Seq<u8>;
pub open spec fn pad4(n: int) -> int { ((n + 3) / 4) * 4 }
// the exact bytes of a typed value: tag, payload, zero padding to a multiple of 4
pub open spec fn zeros(n: int) -> Seq<u8> { Seq::new(n as nat, |i: int| 0u8) }
pub open spec fn pv_bytes(v: PropertyValue, cp: CodePage) -> Seq<u8> {
    match v {
        PropertyValue::Empty => le32(0),
        PropertyValue::Null => le32(1),
        PropertyValue::I1(x) => le32(16) + seq![x as u8] + seq![0u8] + le16(0),
        PropertyValue::I2(x) => le32(2) + le16(x as u16) + le16(0),
        PropertyValue::I4(x) => le32(3) + le32(x as u32),
        PropertyValue::LpStr(s) => {
            let e = enc_bytes(cp, s@);
            le32(30) + le32((e.len() + 1) as u32) + e + seq![0u8] + zeros(pad4(e.len() as int + 1) - (e.len() as int + 1))
        },
        PropertyValue::FileTime(t) => le32(64) + le32((ts_ticks(t) & 0xffff_ffff) as u32) + le32((ts_ticks(t) >> 32) as u32),
    }
}
