// ---- prelude/instep.rs: "the cached code page is in step with property 1" (C10: set / set_codepage keep
// the cached page in step with the stored property; 16-bit identifier stored signed, read unsigned).
// Shared text of groups `propset` (every setter keeps it) and `pspair` (what it means after reopening).
// Needs: cp_of_id(id) -- the identifier table (defined in propset, imported elsewhere).
pub open spec fn in_step(m: Map<u32, PropertyValue>, cp: CodePage) -> bool {
    &&& (m.contains_key(1u32) ==> (m[1u32] matches PropertyValue::I2(x) && cp_of_id((x as u16) as int) == Some(cp)))
    &&& (!m.contains_key(1u32) ==> cp == CodePage::Utf8)
}
