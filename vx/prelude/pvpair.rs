// ---- prelude/pvpair.rs: the READER-side format of one typed property value (pv_is), and the lemma that it inverts
// the writer-side format pv_bytes (prelude/pvfmt.rs).  Shared text of groups `readers` and `pspair`.
// a typed property value (property-set format): 32-bit type tag, then the payload
pub open spec fn lpstr_len(b: Seq<u8>) -> int {
    let n = u32_le(b.skip(4)) as int;
    if n == 0 { 0 } else { n - 1 }
}
pub open spec fn pv_is(b: Seq<u8>, cp: CodePage, v: PropertyValue) -> bool {
    let tag = u32_le(b);
    if tag == 0 { v == PropertyValue::Empty }
    else if tag == 1 { v == PropertyValue::Null }
    else if tag == 2 { b.len() >= 6 && v == PropertyValue::I2(u16_le(b.skip(4)) as i16) }
    else if tag == 3 { b.len() >= 8 && v == PropertyValue::I4(u32_le(b.skip(4)) as i32) }
    else if tag == 16 { b.len() >= 5 && v == PropertyValue::I1(b[4] as i8) }
    else if tag == 30 {
        // length field counts the terminating NUL; the string is NUL-terminated
        b.len() >= 8 + lpstr_len(b) + 1 && b[8 + lpstr_len(b)] == 0
            && v is LpStr && v->LpStr_0@ == dec_chars(cp, b.subrange(8, 8 + lpstr_len(b)))
    }
    else if tag == 64 { b.len() >= 12 && v is FileTime && ts_ticks(v->FileTime_0) == u64_le(b.skip(4)) }
    else { false }
}
// a string is representable in a page when the page's decoder inverts its encoder on it
// ("strings exactly when representable in the chosen code page")
pub open spec fn representable(cp: CodePage, s: Seq<char>) -> bool { dec_chars(cp, enc_bytes(cp, s)) == s }
proof fn lemma_le32_rt(v: u32, rest: Seq<u8>)
    ensures u32_le(le32(v) + rest) == v, (le32(v) + rest).skip(4) =~= rest
{
    let s = le32(v) + rest;
    assert(s[0] == (v & 0xff) as u8 && s[1] == ((v >> 8) & 0xff) as u8 && s[2] == ((v >> 16) & 0xff) as u8 && s[3] == ((v >> 24) & 0xff) as u8);
    assert(((((v & 0xff) as u8) as u32) | ((((v >> 8) & 0xff) as u8) as u32) << 8u32 | ((((v >> 16) & 0xff) as u8) as u32) << 16u32
        | ((((v >> 24) & 0xff) as u8) as u32) << 24u32) == v) by(bit_vector);
}
proof fn lemma_le16_rt(v: u16, rest: Seq<u8>)
    ensures u16_le(le16(v) + rest) == v
{
    let s = le16(v) + rest;
    assert(s[0] == (v & 0xff) as u8 && s[1] == ((v >> 8) & 0xff) as u8);
    assert((((v & 0xff) as u8) as u16) | ((((v >> 8) & 0xff) as u8) as u16) << 8u16 == v) by(bit_vector);
}
proof fn lemma_u64_halves(t: u64)
    ensures ((((t & 0xffff_ffff) as u32) as u64) | ((((t >> 32) as u32) as u64) << 32u64)) == t
{
    assert(((((t & 0xffff_ffff) as u32) as u64) | ((((t >> 32) as u32) as u64) << 32u64)) == t) by(bit_vector);
}
proof fn lemma_i16_rt(x: i16) ensures ((x as u16) as i16) == x { assert(((x as u16) as i16) == x) by(bit_vector); }
proof fn lemma_i32_rt(x: i32) ensures ((x as u32) as i32) == x { assert(((x as u32) as i32) == x) by(bit_vector); }
proof fn lemma_i8_rt(x: i8) ensures ((x as u8) as i8) == x { assert(((x as u8) as i8) == x) by(bit_vector); }

// what PropertyValue::write emits for v (group serial: bytes == pv_bytes(v, cp)) is read back by
// PropertyValue::read (pv_is, below) as v itself -- for strings: when representable in the page
// and short enough for the 32-bit length field.  One small lemma per kind of value.
proof fn lemma_pv_pair_small(v: PropertyValue, cp: CodePage, rest: Seq<u8>, v2: PropertyValue)
    requires pv_is(pv_bytes(v, cp) + rest, cp, v2), v is Empty || v is Null || v is I4
    ensures v2 == v
{
    let b = pv_bytes(v, cp) + rest;
    match v {
        PropertyValue::Empty => { assert(b =~= le32(0) + rest); lemma_le32_rt(0, rest); }
        PropertyValue::Null => { assert(b =~= le32(1) + rest); lemma_le32_rt(1, rest); }
        PropertyValue::I4(x) => {
            let tail = le32(x as u32) + rest;
            assert(b =~= le32(3) + tail);
            lemma_le32_rt(3, tail);
            lemma_le32_rt(x as u32, rest);
            lemma_i32_rt(x);
        }
        _ => {}
    }
}
proof fn lemma_pv_pair_i1(x: i8, cp: CodePage, rest: Seq<u8>, v2: PropertyValue)
    requires pv_is(pv_bytes(PropertyValue::I1(x), cp) + rest, cp, v2)
    ensures v2 == PropertyValue::I1(x)
{
    let b = pv_bytes(PropertyValue::I1(x), cp) + rest;
    let tail = seq![x as u8] + seq![0u8] + le16(0) + rest;
    assert(b =~= le32(16) + tail);
    lemma_le32_rt(16, tail);
    assert(b[4] == tail[0]);
    lemma_i8_rt(x);
}
proof fn lemma_pv_pair_i2(x: i16, cp: CodePage, rest: Seq<u8>, v2: PropertyValue)
    requires pv_is(pv_bytes(PropertyValue::I2(x), cp) + rest, cp, v2)
    ensures v2 == PropertyValue::I2(x)
{
    let b = pv_bytes(PropertyValue::I2(x), cp) + rest;
    let tail = le16(x as u16) + le16(0) + rest;
    assert(b =~= le32(2) + tail);
    lemma_le32_rt(2, tail);
    assert(tail =~= le16(x as u16) + (le16(0) + rest));
    lemma_le16_rt(x as u16, le16(0) + rest);
    lemma_i16_rt(x);
}
// the bytes of a string value, seen through the reader's accessors (no pv_is / pv_bytes here: pure sequence facts)
proof fn lemma_lpstr_layout(e: Seq<u8>, z: Seq<u8>, rest: Seq<u8>)
    requires e.len() < 0xffff_f000
    ensures ({
        let b = le32(30) + le32((e.len() + 1) as u32) + e + seq![0u8] + z + rest;
        &&& u32_le(b) == 30
        &&& lpstr_len(b) == e.len()
        &&& b.len() >= 8 + e.len() + 1
        &&& b[8 + e.len() as int] == 0
        &&& b.subrange(8, 8 + e.len() as int) == e
    })
{
    let b = le32(30) + le32((e.len() + 1) as u32) + e + seq![0u8] + z + rest;
    let tail2 = e + seq![0u8] + z + rest;
    let tail = le32((e.len() + 1) as u32) + tail2;
    assert(b =~= le32(30) + tail);
    lemma_le32_rt(30, tail);
    lemma_le32_rt((e.len() + 1) as u32, tail2);
    assert(b.skip(4) =~= tail);
    assert(u32_le(b.skip(4)) == (e.len() + 1) as u32);
    assert(lpstr_len(b) == e.len());
    assert(b.subrange(8, 8 + e.len() as int) =~= e);
}
proof fn lemma_pv_pair_str(s: String, cp: CodePage, rest: Seq<u8>, v2: PropertyValue)
    requires
        pv_is(pv_bytes(PropertyValue::LpStr(s), cp) + rest, cp, v2),
        representable(cp, s@), enc_bytes(cp, s@).len() < 0xffff_f000,
    ensures v2 is LpStr && v2->LpStr_0@ == s@
{
    let e = enc_bytes(cp, s@);
    let z = zeros(pad4(e.len() as int + 1) - (e.len() as int + 1));
    let b = pv_bytes(PropertyValue::LpStr(s), cp) + rest;
    assert(b =~= le32(30) + le32((e.len() + 1) as u32) + e + seq![0u8] + z + rest);
    lemma_lpstr_layout(e, z, rest);
}
proof fn lemma_pv_pair_time(t: Timestamp, cp: CodePage, rest: Seq<u8>, v2: PropertyValue)
    requires pv_is(pv_bytes(PropertyValue::FileTime(t), cp) + rest, cp, v2)
    ensures v2 is FileTime && ts_ticks(v2->FileTime_0) == ts_ticks(t)
{
    let b = pv_bytes(PropertyValue::FileTime(t), cp) + rest;
    let lo = (ts_ticks(t) & 0xffff_ffff) as u32;
    let hi = (ts_ticks(t) >> 32) as u32;
    let tail = le32(lo) + le32(hi) + rest;
    assert(b =~= le32(64) + tail);
    lemma_le32_rt(64, tail);
    assert(tail =~= le32(lo) + (le32(hi) + rest));
    lemma_le32_rt(lo, le32(hi) + rest);
    lemma_le32_rt(hi, rest);
    assert(b.skip(4).take(4) =~= le32(lo));
    assert(b.skip(4).skip(4) =~= le32(hi) + rest);
    lemma_u64_halves(ts_ticks(t));
}
pub proof fn lemma_pv_pair(v: PropertyValue, cp: CodePage, rest: Seq<u8>, v2: PropertyValue)
    requires
        pv_is(pv_bytes(v, cp) + rest, cp, v2),
        v matches PropertyValue::LpStr(s) ==> representable(cp, s@) && enc_bytes(cp, s@).len() < 0xffff_f000,
    ensures
        match v {
            PropertyValue::LpStr(s) => v2 is LpStr && v2->LpStr_0@ == s@,
            PropertyValue::FileTime(t) => v2 is FileTime && ts_ticks(v2->FileTime_0) == ts_ticks(t),
            _ => v2 == v,
        }
{
    match v {
        PropertyValue::I1(x) => lemma_pv_pair_i1(x, cp, rest, v2),
        PropertyValue::I2(x) => lemma_pv_pair_i2(x, cp, rest, v2),
        PropertyValue::LpStr(s) => lemma_pv_pair_str(s, cp, rest, v2),
        PropertyValue::FileTime(t) => lemma_pv_pair_time(t, cp, rest, v2),
        _ => lemma_pv_pair_small(v, cp, rest, v2),
    }
}
