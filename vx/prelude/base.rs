// ---- prelude/base.rs (trusted; part of /verif, not of /repo) ----------------
// X2: the repository's four error macros build an io::Error from a formatted
// message.  Verus cannot type `io::Error::new` (Box<dyn Error + Send + Sync>),
// so the extractor rewrites `invalid_data!(..)` etc. to `return Err(vx_io_error())`.
// Dropped: error kind and message text.  Kept: the early return of an `Err`.
#[verifier::external_type_specification]
#[verifier::external_body]
pub struct ExIoError(std::io::Error);

#[verifier::external_body]
pub fn vx_io_error() -> std::io::Error {
    std::io::Error::new(std::io::ErrorKind::Other, "vx")
}
