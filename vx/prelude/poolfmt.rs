// ---- prelude/poolfmt.rs (definitions only: the _StringPool stream format) ------
// Shared by the writer group (`serial`) and the reader group (`readers`) so that both
// are proved against the SAME text.  Nothing here is assumed: these are spec functions.
pub open spec fn pf_le16(v: u16) -> Seq<u8> { seq![(v & 0xff) as u8, ((v >> 8) & 0xff) as u8] }

// one entry: a 16-bit length and a 16-bit reference count; a string of more than
// 65535 bytes is announced by an extra pair (0, length >> 16)
pub open spec fn pf_entry(len: u32, rc: u16) -> Seq<u8> {
    (if len > 0xffff { pf_le16(0) + pf_le16((len >> 16) as u16) } else { Seq::<u8>::empty() })
        + pf_le16((len & 0xffff) as u16) + pf_le16(rc)
}
// the first k entries, in order
pub open spec fn pf_entries(es: Seq<(u32, u16)>, k: int) -> Seq<u8>
    decreases k
{
    if k <= 0 { Seq::<u8>::empty() } else { pf_entries(es, k - 1) + pf_entry(es[k - 1].0, es[k - 1].1) }
}
