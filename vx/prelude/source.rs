// ---- prelude/source.rs (trusted) -----------------------------------------------
// X3: a generic `R: Read` parameter is instantiated with VSource: the bytes still
// to be read (`left`): an in-memory stream.  A read of k bytes succeeds exactly when
// at least k bytes are left; then the value is their little-endian decoding and
// exactly k bytes are consumed; otherwise it returns Err (end of data) and nothing
// is promised about the stream.  (byteorder's read_u16::<LittleEndian> etc.,
// turbofish dropped by X3.)
// I/O FAULTS: besides "not enough bytes" (which byteorder / read_exact report as an error of
// kind UnexpectedEof) a read may fail because the medium failed; `failed()` records that some
// call on this source has hit such a fault.  A reader's contract can then say that a fault is
// REPORTED (C15: "also failing reads"): after a fault the reader returns Err.  An error is of
// kind UnexpectedEof exactly when it is the end-of-data error (`err_is_eof`).
pub struct VSource {
    pub whole: Ghost<Seq<u8>>,
    pub pos: Ghost<int>,
    pub faulted: Ghost<bool>,
}
// the kind of an io::Error, as far as the readers care
pub uninterp spec fn err_is_eof(e: &std::io::Error) -> bool;
// X7 call shim for `error.kind() == io::ErrorKind::UnexpectedEof`
#[verifier::external_body]
pub fn vx_err_is_eof(e: &std::io::Error) -> (r: bool)
    ensures r == err_is_eof(e)
{ e.kind() == std::io::ErrorKind::UnexpectedEof }

#[verifier::external_type_specification]
pub struct ExSeekFrom(std::io::SeekFrom);

pub open spec fn u16_le(s: Seq<u8>) -> u16 { (s[0] as u16) | ((s[1] as u16) << 8u16) }
pub open spec fn u32_le(s: Seq<u8>) -> u32 {
    (s[0] as u32) | ((s[1] as u32) << 8u32) | ((s[2] as u32) << 16u32) | ((s[3] as u32) << 24u32)
}
pub open spec fn u64_le(s: Seq<u8>) -> u64 {
    (u32_le(s.take(4)) as u64) | ((u32_le(s.skip(4)) as u64) << 32u64)
}

impl VSource {
    // the whole stream, and what is left from the current position (seeking past the end is
    // allowed, as with std::io::Cursor: nothing is left then)
    pub closed spec fn all(&self) -> Seq<u8> { self.whole@ }
    // some read or seek on this source has failed for a reason other than the end of the data
    pub closed spec fn failed(&self) -> bool { self.faulted@ }
    pub closed spec fn left(&self) -> Seq<u8> {
        if 0 <= self.pos@ <= self.whole@.len() { self.whole@.skip(self.pos@) } else { Seq::<u8>::empty() }
    }

    // `reader.seek(SeekFrom::Start(n))`: position n from the start (other variants are not used
    // by the code under contract and are left unspecified)
    #[verifier::external_body]
    pub fn seek(&mut self, to: std::io::SeekFrom) -> (r: std::io::Result<u64>)
        ensures
            final(self).all() == old(self).all(),
            r is Ok ==> (to matches std::io::SeekFrom::Start(n) ==> final(self).left() ==
                (if n as int <= old(self).all().len() { old(self).all().skip(n as int) } else { Seq::<u8>::empty() })),
            // an in-memory stream: seeking to an absolute position or to the end cannot fail
            (to is Start || to is End) && !final(self).failed() ==> r is Ok,
            r is Ok ==> final(self).failed() == old(self).failed(),
            r is Err ==> final(self).failed(),
            // `SeekFrom::End(0)`: the end of the stream; the result is its length
            r is Ok ==> (to matches std::io::SeekFrom::End(n) ==> (n == 0 ==>
                final(self).left() == Seq::<u8>::empty() && r->Ok_0 as int == old(self).all().len())),
    { unimplemented!() }

    // `reader.rewind()`: back to the start
    #[verifier::external_body]
    pub fn rewind(&mut self) -> (r: std::io::Result<()>)
        ensures
            final(self).all() == old(self).all(),
            !final(self).failed() ==> r is Ok,
            r is Ok ==> final(self).left() == old(self).all() && final(self).failed() == old(self).failed(),
            r is Err ==> final(self).failed(),
    { unimplemented!() }

    // `reader.stream_position()`: the current position; the stream is unchanged.  While bytes are
    // left the position is exactly (whole length - bytes left); after a seek past the end it is
    // only known to be at least the length.
    #[verifier::external_body]
    pub fn stream_position(&mut self) -> (r: std::io::Result<u64>)
        ensures
            final(self).all() == old(self).all(),
            final(self).left() == old(self).left(),
            r is Ok ==> final(self).failed() == old(self).failed(),
            r is Err ==> final(self).failed(),
            r is Ok ==> r->Ok_0 as int >= old(self).all().len() - old(self).left().len(),
            r is Ok && old(self).left().len() > 0 ==> r->Ok_0 as int == old(self).all().len() - old(self).left().len(),
    { unimplemented!() }

    // read_exact into a fixed 16-byte array (CLSID / FMTID fields)
    #[verifier::external_body]
    pub fn read_exact16(&mut self, buf: &mut [u8; 16]) -> (r: std::io::Result<()>)
        ensures
            final(self).all() == old(self).all(),
            old(self).left().len() >= 16 && !final(self).failed() ==> r is Ok,
            r is Ok ==> final(self).failed() == old(self).failed(),
            r is Err ==> (err_is_eof(&r->Err_0) ==> old(self).left().len() < 16 && final(self).failed() == old(self).failed())
                && (!err_is_eof(&r->Err_0) ==> final(self).failed()),
            r is Ok ==> old(self).left().len() >= 16 && final(buf)@ == old(self).left().take(16)
                && final(self).left() == old(self).left().skip(16),
    { unimplemented!() }

    #[verifier::external_body]
    pub fn read_u8(&mut self) -> (r: std::io::Result<u8>)
        ensures
            final(self).all() == old(self).all(),
            old(self).left().len() >= 1 && !final(self).failed() ==> r is Ok,
            r is Ok ==> final(self).failed() == old(self).failed(),
            r is Err ==> (err_is_eof(&r->Err_0) ==> old(self).left().len() < 1 && final(self).failed() == old(self).failed())
                && (!err_is_eof(&r->Err_0) ==> final(self).failed()),
            r is Ok ==> old(self).left().len() >= 1 && r->Ok_0 == old(self).left()[0] && final(self).left() == old(self).left().skip(1),
    { unimplemented!() }

    #[verifier::external_body]
    pub fn read_i8(&mut self) -> (r: std::io::Result<i8>)
        ensures
            final(self).all() == old(self).all(),
            old(self).left().len() >= 1 && !final(self).failed() ==> r is Ok,
            r is Ok ==> final(self).failed() == old(self).failed(),
            r is Err ==> (err_is_eof(&r->Err_0) ==> old(self).left().len() < 1 && final(self).failed() == old(self).failed())
                && (!err_is_eof(&r->Err_0) ==> final(self).failed()),
            r is Ok ==> old(self).left().len() >= 1 && r->Ok_0 == old(self).left()[0] as i8 && final(self).left() == old(self).left().skip(1),
    { unimplemented!() }

    #[verifier::external_body]
    pub fn read_u16(&mut self) -> (r: std::io::Result<u16>)
        ensures
            final(self).all() == old(self).all(),
            old(self).left().len() >= 2 && !final(self).failed() ==> r is Ok,
            r is Ok ==> final(self).failed() == old(self).failed(),
            r is Err ==> (err_is_eof(&r->Err_0) ==> old(self).left().len() < 2 && final(self).failed() == old(self).failed())
                && (!err_is_eof(&r->Err_0) ==> final(self).failed()),
            r is Ok ==> old(self).left().len() >= 2 && r->Ok_0 == u16_le(old(self).left()) && final(self).left() == old(self).left().skip(2),
    { unimplemented!() }

    #[verifier::external_body]
    pub fn read_i16(&mut self) -> (r: std::io::Result<i16>)
        ensures
            final(self).all() == old(self).all(),
            old(self).left().len() >= 2 && !final(self).failed() ==> r is Ok,
            r is Ok ==> final(self).failed() == old(self).failed(),
            r is Err ==> (err_is_eof(&r->Err_0) ==> old(self).left().len() < 2 && final(self).failed() == old(self).failed())
                && (!err_is_eof(&r->Err_0) ==> final(self).failed()),
            r is Ok ==> old(self).left().len() >= 2 && r->Ok_0 == u16_le(old(self).left()) as i16 && final(self).left() == old(self).left().skip(2),
    { unimplemented!() }

    #[verifier::external_body]
    pub fn read_u32(&mut self) -> (r: std::io::Result<u32>)
        ensures
            final(self).all() == old(self).all(),
            old(self).left().len() >= 4 && !final(self).failed() ==> r is Ok,
            r is Ok ==> final(self).failed() == old(self).failed(),
            r is Err ==> (err_is_eof(&r->Err_0) ==> old(self).left().len() < 4 && final(self).failed() == old(self).failed())
                && (!err_is_eof(&r->Err_0) ==> final(self).failed()),
            r is Ok ==> old(self).left().len() >= 4 && r->Ok_0 == u32_le(old(self).left()) && final(self).left() == old(self).left().skip(4),
    { unimplemented!() }

    #[verifier::external_body]
    pub fn read_i32(&mut self) -> (r: std::io::Result<i32>)
        ensures
            final(self).all() == old(self).all(),
            old(self).left().len() >= 4 && !final(self).failed() ==> r is Ok,
            r is Ok ==> final(self).failed() == old(self).failed(),
            r is Err ==> (err_is_eof(&r->Err_0) ==> old(self).left().len() < 4 && final(self).failed() == old(self).failed())
                && (!err_is_eof(&r->Err_0) ==> final(self).failed()),
            r is Ok ==> old(self).left().len() >= 4 && r->Ok_0 == u32_le(old(self).left()) as i32 && final(self).left() == old(self).left().skip(4),
    { unimplemented!() }

    #[verifier::external_body]
    pub fn read_u64(&mut self) -> (r: std::io::Result<u64>)
        ensures
            final(self).all() == old(self).all(),
            old(self).left().len() >= 8 && !final(self).failed() ==> r is Ok,
            r is Ok ==> final(self).failed() == old(self).failed(),
            r is Err ==> (err_is_eof(&r->Err_0) ==> old(self).left().len() < 8 && final(self).failed() == old(self).failed())
                && (!err_is_eof(&r->Err_0) ==> final(self).failed()),
            r is Ok ==> old(self).left().len() >= 8 && r->Ok_0 == u64_le(old(self).left()) && final(self).left() == old(self).left().skip(8),
    { unimplemented!() }

    #[verifier::external_body]
    pub fn read_exact(&mut self, buf: &mut Vec<u8>) -> (r: std::io::Result<()>)
        ensures
            final(self).all() == old(self).all(),
            final(buf)@.len() == old(buf)@.len(),
            old(self).left().len() >= old(buf)@.len() && !final(self).failed() ==> r is Ok,
            r is Ok ==> final(self).failed() == old(self).failed(),
            r is Err ==> (err_is_eof(&r->Err_0) ==> old(self).left().len() < old(buf)@.len() && final(self).failed() == old(self).failed())
                && (!err_is_eof(&r->Err_0) ==> final(self).failed()),
            r is Ok ==> old(self).left().len() >= old(buf)@.len() && final(buf)@ == old(self).left().take(old(buf)@.len() as int)
                && final(self).left() == old(self).left().skip(old(buf)@.len() as int),
    { unimplemented!() }
}
