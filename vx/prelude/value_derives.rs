// ---- prelude/value_derives.rs (trusted) --------------------------------------
// `Value` derives Clone, PartialEq, Eq, PartialOrd, Ord in /repo.  Verus accepts
// the derives but attaches no specification to them, so the extractor drops the
// derive line (X1, logged) and these impls state what `#[derive]` generates for
// this enum, as documented by the Rust reference: structural equality/clone,
// variants ordered by declaration (Null < Int < Str), payloads by their own
// order.  The order on String payloads is left uninterpreted (`str_cmp`).
// The extractor guards this file with a hash of the normalised `enum Value`
// text: if the enum changes, the check reports UNDECIDED instead of trusting it.
pub uninterp spec fn str_cmp(a: Seq<char>, b: Seq<char>) -> core::cmp::Ordering;

// opaque: no proof needs the definition (the comparison results are stated
// through vv_cmp itself), and hiding it keeps the BinOp::eval query small
#[verifier::opaque]
pub open spec fn vv_cmp(a: VV, b: VV) -> core::cmp::Ordering {
    match (a, b) {
        (VV::Null, VV::Null) => core::cmp::Ordering::Equal,
        (VV::Null, _) => core::cmp::Ordering::Less,
        (VV::Int(_), VV::Null) => core::cmp::Ordering::Greater,
        (VV::Int(x), VV::Int(y)) => if x < y { core::cmp::Ordering::Less } else if x == y { core::cmp::Ordering::Equal } else { core::cmp::Ordering::Greater },
        (VV::Int(_), VV::Str(_)) => core::cmp::Ordering::Less,
        (VV::Str(x), VV::Str(y)) => str_cmp(x, y),
        (VV::Str(_), _) => core::cmp::Ordering::Greater,
    }
}

impl vstd::std_specs::cmp::PartialEqSpecImpl for Value {
    open spec fn obeys_eq_spec() -> bool { true }
    open spec fn eq_spec(&self, o: &Value) -> bool { vv(*self) == vv(*o) }
}
impl PartialEq for Value {
    #[verifier::external_body]
    fn eq(&self, other: &Value) -> bool {
        match (self, other) {
            (Value::Null, Value::Null) => true,
            (Value::Int(a), Value::Int(b)) => a == b,
            (Value::Str(a), Value::Str(b)) => a == b,
            _ => false,
        }
    }
}
impl vstd::std_specs::cmp::PartialOrdSpecImpl for Value {
    open spec fn obeys_partial_cmp_spec() -> bool { true }
    open spec fn partial_cmp_spec(&self, o: &Value) -> Option<core::cmp::Ordering> { Some(vv_cmp(vv(*self), vv(*o))) }
}
impl PartialOrd for Value {
    #[verifier::external_body]
    fn partial_cmp(&self, other: &Value) -> Option<core::cmp::Ordering> {
        fn rank(v: &Value) -> u8 { match v { Value::Null => 0, Value::Int(_) => 1, Value::Str(_) => 2 } }
        match (self, other) {
            (Value::Int(a), Value::Int(b)) => a.partial_cmp(b),
            (Value::Str(a), Value::Str(b)) => a.partial_cmp(b),
            _ => rank(self).partial_cmp(&rank(other)),
        }
    }
}
impl Clone for Value {
    #[verifier::external_body]
    fn clone(&self) -> (r: Value)
        ensures vv(r) == vv(*self)
    {
        match self {
            Value::Null => Value::Null,
            Value::Int(n) => Value::Int(*n),
            Value::Str(s) => Value::Str(s.clone()),
        }
    }
}
