// ---- prelude/btree.rs (trusted: BTreeMap::into_iter) --------------------------
// `for (k, v) in map.into_iter()`: the iterator yields every entry of the map exactly
// once (in ascending key order; the order is not needed by the contracts here).
#[verifier::external_type_specification]
#[verifier::external_body]
#[verifier::reject_recursive_types(K)]
#[verifier::reject_recursive_types(V)]
#[verifier::reject_recursive_types(A)]
pub struct ExBTreeIntoIter<K, V, A: core::alloc::Allocator + Clone>(std::collections::btree_map::IntoIter<K, V, A>);

// X7 call shim for `map.into_iter()` (an assume_specification on the trait method does not
// connect the returned iterator's `remaining` with the caller's, so the call goes through
// this function, whose body is the same expression)
// "the sequence s enumerates the map m": every pair is an entry, every entry occurs, no key twice
pub open spec fn btree_covers<K, V>(s: Seq<(K, V)>, m: Map<K, V>) -> bool {
    &&& forall|i: int| 0 <= i < s.len() ==> m.contains_key(#[trigger] s[i].0) && m[s[i].0] == s[i].1
    &&& forall|k: K| m.contains_key(k) ==> exists|i: int| 0 <= i < s.len() && #[trigger] s[i].0 == k
    &&& forall|i: int, j: int| 0 <= i < j < s.len() ==> s[i].0 != s[j].0
}
#[verifier::external_body]
pub fn vx_btree_into_iter<K, V>(m: std::collections::BTreeMap<K, V>) -> (r: std::collections::btree_map::IntoIter<K, V>)
    ensures
        // every yielded pair is an entry of the map, every entry is yielded, keys are not repeated
        btree_covers(vstd::std_specs::iter::IteratorSpec::remaining(&r), m@),
{
    m.into_iter()
}

// Iterator laws of btree_map::IntoIter (TRUSTED AXIOM; see prelude/chars.rs for why)
pub broadcast axiom fn axiom_btree_into_iter_laws<K, V, A: core::alloc::Allocator + Clone>(e: std::collections::btree_map::IntoIter<K, V, A>)
    ensures
        #[trigger] vstd::std_specs::iter::IteratorSpec::obeys_prophetic_iter_laws(&e),
        vstd::std_specs::iter::IteratorSpec::decrease(&e) == Some(vstd::std_specs::iter::IteratorSpec::remaining(&e).len());

// ---- iteration by reference ------------------------------------------------------
// `map.iter()` yields the entries in ascending key order; every call on the same map yields
// the same sequence, written `btree_seq(m)` (uninterpreted: sorted, covers the map exactly).
// (btree_map::Iter already has a type specification in vstd)
pub uninterp spec fn btree_seq<K, V>(m: Map<K, V>) -> Seq<(K, V)>;

pub axiom fn axiom_btree_seq<K, V>(m: Map<K, V>)
    ensures
        btree_seq(m).len() == m.len(),
        forall|i: int| 0 <= i < btree_seq(m).len() ==> m.contains_key(#[trigger] btree_seq(m)[i].0) && m[btree_seq(m)[i].0] == btree_seq(m)[i].1,
        forall|i: int, j: int| 0 <= i < j < btree_seq(m).len() ==> btree_seq(m)[i].0 != btree_seq(m)[j].0;

// ... and every entry of the map is yielded (used by group `pspair` only)
pub axiom fn axiom_btree_seq_covers<K, V>(m: Map<K, V>)
    ensures forall|k: K| m.contains_key(k) ==> exists|i: int| 0 <= i < btree_seq(m).len() && (#[trigger] btree_seq(m)[i]).0 == k;

// X7 call shims for `map.iter()` and `map.iter().enumerate()`.
// vstd specifies BTreeMap::iter (entries of the map, keys not repeated) but not that two
// iterations of the same map yield the SAME sequence; std documents ascending key order, so
// the sequence is a function of the map.  The one `assume` below states exactly that.
pub fn vx_btree_iter<'a, K, V>(m: &'a std::collections::BTreeMap<K, V>) -> (r: std::collections::btree_map::Iter<'a, K, V>)
    ensures
        vstd::std_specs::iter::IteratorSpec::obeys_prophetic_iter_laws(&r),
        vstd::std_specs::iter::IteratorSpec::decrease(&r) is Some,
        vstd::std_specs::iter::IteratorSpec::remaining(&r).len() == btree_seq(m@).len(),
        forall|i: int| 0 <= i < btree_seq(m@).len() ==>
            *(#[trigger] vstd::std_specs::iter::IteratorSpec::remaining(&r)[i]).0 == btree_seq(m@)[i].0
            && *vstd::std_specs::iter::IteratorSpec::remaining(&r)[i].1 == btree_seq(m@)[i].1,
{
    let r = m.iter();
    proof {
        // (also: iterating a finite map terminates -- `decrease` is defined for it)
        assume(vstd::std_specs::iter::IteratorSpec::decrease(&r) is Some);
        assume(vstd::std_specs::iter::IteratorSpec::remaining(&r).len() == btree_seq(m@).len()
            && forall|i: int| 0 <= i < btree_seq(m@).len() ==>
                *(#[trigger] vstd::std_specs::iter::IteratorSpec::remaining(&r)[i]).0 == btree_seq(m@)[i].0
                && *vstd::std_specs::iter::IteratorSpec::remaining(&r)[i].1 == btree_seq(m@)[i].1);
    }
    r
}

#[verifier::external_body]
pub fn vx_btree_iter_enumerate<'a, K, V>(m: &'a std::collections::BTreeMap<K, V>) -> (r: core::iter::Enumerate<std::collections::btree_map::Iter<'a, K, V>>)
    ensures
        vstd::std_specs::iter::IteratorSpec::remaining(&r).len() == btree_seq(m@).len(),
        forall|i: int| 0 <= i < btree_seq(m@).len() ==>
            (#[trigger] vstd::std_specs::iter::IteratorSpec::remaining(&r)[i]).0 as int == i
            && *vstd::std_specs::iter::IteratorSpec::remaining(&r)[i].1.0 == btree_seq(m@)[i].0
            && *vstd::std_specs::iter::IteratorSpec::remaining(&r)[i].1.1 == btree_seq(m@)[i].1,
{
    m.iter().enumerate()
}

pub broadcast axiom fn axiom_btree_iter_enumerate_laws<'a, K, V>(e: core::iter::Enumerate<std::collections::btree_map::Iter<'a, K, V>>)
    ensures
        #[trigger] vstd::std_specs::iter::IteratorSpec::obeys_prophetic_iter_laws(&e),
        vstd::std_specs::iter::IteratorSpec::decrease(&e) == Some(vstd::std_specs::iter::IteratorSpec::remaining(&e).len());
