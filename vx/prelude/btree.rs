// ---- prelude/btree.rs (trusted: BTreeMap::into_iter) --------------------------
// `for (k, v) in map.into_iter()`: the iterator yields every entry of the map exactly
// once (in ascending key order; the order is not needed by the contracts here).
#[verifier::external_type_specification]
#[verifier::external_body]
#[verifier::reject_recursive_types(K)]
#[verifier::reject_recursive_types(V)]
#[verifier::reject_recursive_types(A)]
pub struct ExBTreeIntoIter<K, V, A: core::alloc::Allocator + Clone>(std::collections::btree_map::IntoIter<K, V, A>);

// X7 call shim for `map.into_iter()` (an assume_specification on the trait method does not
// connect the returned iterator's `remaining` with the caller's, so the call goes through
// this function, whose body is the same expression)
#[verifier::external_body]
pub fn vx_btree_into_iter<K, V>(m: std::collections::BTreeMap<K, V>) -> (r: std::collections::btree_map::IntoIter<K, V>)
    ensures
        // every yielded pair is an entry of the map, every entry is yielded, keys are not repeated
        forall|i: int| 0 <= i < vstd::std_specs::iter::IteratorSpec::remaining(&r).len() ==>
            m@.contains_key(#[trigger] vstd::std_specs::iter::IteratorSpec::remaining(&r)[i].0)
            && m@[vstd::std_specs::iter::IteratorSpec::remaining(&r)[i].0] == vstd::std_specs::iter::IteratorSpec::remaining(&r)[i].1,
        forall|k: K| m@.contains_key(k) ==> exists|i: int| 0 <= i < vstd::std_specs::iter::IteratorSpec::remaining(&r).len()
            && #[trigger] vstd::std_specs::iter::IteratorSpec::remaining(&r)[i].0 == k,
        forall|i: int, j: int| 0 <= i < j < vstd::std_specs::iter::IteratorSpec::remaining(&r).len() ==>
            vstd::std_specs::iter::IteratorSpec::remaining(&r)[i].0 != vstd::std_specs::iter::IteratorSpec::remaining(&r)[j].0,
{
    m.into_iter()
}

// Iterator laws of btree_map::IntoIter (TRUSTED AXIOM; see prelude/chars.rs for why)
pub broadcast axiom fn axiom_btree_into_iter_laws<K, V, A: core::alloc::Allocator + Clone>(e: std::collections::btree_map::IntoIter<K, V, A>)
    ensures
        #[trigger] vstd::std_specs::iter::IteratorSpec::obeys_prophetic_iter_laws(&e),
        vstd::std_specs::iter::IteratorSpec::decrease(&e) == Some(vstd::std_specs::iter::IteratorSpec::remaining(&e).len());
