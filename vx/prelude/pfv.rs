// ---- prelude/pfv.rs (trusted) ---------------------------------------------------
// `#[derive(Clone, Copy, Eq, Ord, PartialEq, PartialOrd)]` on the field-less enum
// PropertyFormatVersion { V0, V1 } (guarded by a hash of the enum text in the templates):
// variants compare by declaration order, V0 < V1 (Rust reference).
impl Clone for PropertyFormatVersion { fn clone(&self) -> (r: PropertyFormatVersion) ensures r == *self { *self } }
impl Copy for PropertyFormatVersion {}
spec fn pfv_rank(v: PropertyFormatVersion) -> int { match v { PropertyFormatVersion::V0 => 0, PropertyFormatVersion::V1 => 1 } }
impl vstd::std_specs::cmp::PartialEqSpecImpl for PropertyFormatVersion {
    open spec fn obeys_eq_spec() -> bool { true }
    closed spec fn eq_spec(&self, o: &PropertyFormatVersion) -> bool { pfv_rank(*self) == pfv_rank(*o) }
}
impl PartialEq for PropertyFormatVersion {
    #[verifier::external_body]
    fn eq(&self, other: &PropertyFormatVersion) -> bool { (*self as u8) == (*other as u8) }
}
impl Eq for PropertyFormatVersion {}
impl vstd::std_specs::cmp::PartialOrdSpecImpl for PropertyFormatVersion {
    open spec fn obeys_partial_cmp_spec() -> bool { true }
    closed spec fn partial_cmp_spec(&self, o: &PropertyFormatVersion) -> Option<core::cmp::Ordering> {
        Some(if pfv_rank(*self) < pfv_rank(*o) { core::cmp::Ordering::Less } else if pfv_rank(*self) == pfv_rank(*o) { core::cmp::Ordering::Equal } else { core::cmp::Ordering::Greater })
    }
}
impl PartialOrd for PropertyFormatVersion {
    #[verifier::external_body]
    fn partial_cmp(&self, other: &PropertyFormatVersion) -> Option<core::cmp::Ordering> { (*self as u8).partial_cmp(&(*other as u8)) }
}
impl vstd::std_specs::cmp::OrdSpecImpl for PropertyFormatVersion {
    open spec fn obeys_cmp_spec() -> bool { true }
    closed spec fn cmp_spec(&self, o: &PropertyFormatVersion) -> core::cmp::Ordering {
        if pfv_rank(*self) < pfv_rank(*o) { core::cmp::Ordering::Less } else if pfv_rank(*self) == pfv_rank(*o) { core::cmp::Ordering::Equal } else { core::cmp::Ordering::Greater }
    }
}
impl Ord for PropertyFormatVersion {
    #[verifier::external_body]
    fn cmp(&self, other: &PropertyFormatVersion) -> core::cmp::Ordering { (*self as u8).cmp(&(*other as u8)) }
}

// `std::cmp::max(a, b)` on PropertyFormatVersion: the larger of the two
pub uninterp spec fn vx_max_spec<T>(a: T, b: T) -> T;
pub assume_specification<T: Ord>[ core::cmp::max ](a: T, b: T) -> (r: T)
    ensures r == vx_max_spec(a, b);
axiom fn axiom_max_pfv(a: PropertyFormatVersion, b: PropertyFormatVersion)
    ensures pfv_rank(vx_max_spec(a, b)) == (if pfv_rank(a) >= pfv_rank(b) { pfv_rank(a) } else { pfv_rank(b) });
