// ---- prelude/fmt.rs (trusted) -------------------------------------------------
// X4: `fmt::Formatter` is instantiated with VFmt, a sink that records the
// sequence of text segments handed to it (one segment per write_str call).
// A write may fail (Err) -- then nothing is claimed about the sink.
pub struct VFmt {
    pub segs: Ghost<Seq<Seq<char>>>,
}

impl VFmt {
    #[verifier::external_body]
    pub fn write_str(&mut self, s: &str) -> (r: Result<(), std::fmt::Error>)
        ensures
            r is Ok ==> final(self).segs@ == old(self).segs@.push(s@),
    {
        unimplemented!()
    }
}

// text a Value is printed as by its Display impl (one segment; uninterpreted:
// NULL, the decimal integer, or the quoted string -- value.rs, not verified here)
pub uninterp spec fn val_text(v: Value) -> Seq<char>;

// X7 call shim for `fmt::Display::fmt(value, formatter)`
#[verifier::external_body]
pub fn vx_display(v: &Value, f: &mut VFmt) -> (r: Result<(), std::fmt::Error>)
    ensures
        r is Ok ==> final(f).segs@ == old(f).segs@.push(val_text(*v)),
{
    unimplemented!()
}

// X7 call shim for `<String as Display>::fmt(s, formatter)` (method form `s.fmt(formatter)`):
// a String is displayed as itself
#[verifier::external_body]
pub fn vx_display_string(s: &String, f: &mut VFmt) -> (r: Result<(), std::fmt::Error>)
    ensures
        r is Ok ==> final(f).segs@ == old(f).segs@.push(s@),
{
    unimplemented!()
}
