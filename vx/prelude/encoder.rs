// ---- prelude/encoder.rs (trusted model of the encoding_rs encoder API, group `codepage`) ----
// The crate encoding_rs is a dependency that cannot be verified here; the types `Encoding`,
// `Encoder`, `EncoderResult` below stand for encoding_rs's (same names, so the extracted body of
// CodePage::encode resolves to them), and the contract of one encoder step is what encoding_rs
// documents for `Encoder::encode_from_utf8_without_replacement(src, dst, last = true)` on the
// single-byte and legacy CJK encodings this library uses (no encoder state is carried between
// calls for them):
//   the step consumes whole characters from the front of `src`, writes the encodings of the
//   mappable ones to the front of `dst`, and stops because
//     InputEmpty     -- everything was consumed,
//     OutputFull     -- `dst` has no room for the next character (with a 1024-byte `dst` at
//                       least one character was consumed: no character needs more than 4 bytes),
//     Unmappable(c)  -- the next character c has no encoding; c IS consumed, nothing written for it;
//   `read` is the number of UTF-8 BYTES consumed, `written` the number of bytes produced.
pub struct Encoding { pub cp: Ghost<CodePage> }
pub struct Encoder { pub cp: Ghost<CodePage> }
pub enum EncoderResult { InputEmpty, OutputFull, Unmappable(char) }

// per-character encoding in a code page (None = unmappable); number of UTF-8 bytes of a char
pub uninterp spec fn enc_char(cp: CodePage, c: char) -> Option<Seq<u8>>;
pub uninterp spec fn clen(c: char) -> int;
pub axiom fn axiom_clen(c: char) ensures 1 <= clen(c) <= 4;

// UTF-8 length of a character sequence
pub open spec fn blen(s: Seq<char>) -> int
    decreases s.len()
{
    if s.len() == 0 { 0 } else { blen(s.drop_last()) + clen(s.last()) }
}
// what the library must produce: every character encoded, or '?' when it has no encoding
pub open spec fn enc_q(cp: CodePage, s: Seq<char>) -> Seq<u8>
    decreases s.len()
{
    if s.len() == 0 { Seq::<u8>::empty() }
    else { enc_q(cp, s.drop_last()) + (match enc_char(cp, s.last()) { Some(b) => b, None => seq![63u8] }) }
}
pub open spec fn all_mappable(cp: CodePage, s: Seq<char>) -> bool {
    forall|i: int| 0 <= i < s.len() ==> enc_char(cp, #[trigger] s[i]) is Some
}

impl Encoding {
    pub closed spec fn page(&self) -> CodePage { self.cp@ }
    #[verifier::external_body]
    pub fn new_encoder(&'static self) -> (r: Encoder)
        ensures r.page() == self.page()
    { unimplemented!() }
}
impl Encoder {
    pub closed spec fn page(&self) -> CodePage { self.cp@ }
}

// the outcome of one step, for the number k of characters it encoded
pub open spec fn step_ok(cp: CodePage, src: Seq<char>, out: Seq<u8>, res: EncoderResult, read: int, k: int) -> bool {
    &&& 0 <= k <= src.len()
    &&& all_mappable(cp, src.take(k))
    &&& out == enc_q(cp, src.take(k))
    &&& match res {
        EncoderResult::InputEmpty => k == src.len() && read == blen(src),
        EncoderResult::OutputFull => 1 <= k < src.len() && read == blen(src.take(k)),
        EncoderResult::Unmappable(c) => k < src.len() && src[k] == c && enc_char(cp, c) is None && read == blen(src.take(k + 1)),
    }
}

// X7 call shim for `encoder.encode_from_utf8_without_replacement(src, &mut buffer[..], last)`
// (`last` only tells a STATEFUL encoder to emit its pending state; none of the encodings used
// here has any, so the contract does not depend on it)
#[verifier::external_body]
pub fn vx_encode_step(encoder: &mut Encoder, src: &str, dst: &mut [u8; 1024], last: bool) -> (r: (EncoderResult, usize, usize))
    ensures
        final(encoder).page() == old(encoder).page(),
        r.2 <= 1024,
        exists|k: int| step_ok(old(encoder).page(), src@, final(dst)@.take(r.2 as int), r.0, r.1 as int, k),
{ unimplemented!() }

// X7 call shim for `&string[from..]`: the tail of a string from a BYTE offset.  The real
// expression panics unless `from` is a character boundary: that is the precondition.
#[verifier::external_body]
pub fn vx_str_from<'a>(s: &'a str, from: usize) -> (r: &'a str)
    requires exists|k: int| 0 <= k <= s@.len() && blen(s@.take(k)) == from as int
    ensures forall|k: int| 0 <= k <= s@.len() && blen(s@.take(k)) == from as int ==> r@ == s@.skip(k)
{ &s[from..] }

// X7 call shim for `&string[from..to]`: both ends must be character boundaries
#[verifier::external_body]
pub fn vx_str_range<'a>(s: &'a str, from: usize, to: usize) -> (r: &'a str)
    requires exists|k: int, m: int| 0 <= k <= m <= s@.len() && blen(s@.take(k)) == from as int && blen(s@.take(m)) == to as int
    ensures forall|k: int, m: int| 0 <= k <= m <= s@.len() && blen(s@.take(k)) == from as int && blen(s@.take(m)) == to as int
        ==> r@ == #[trigger] s@.subrange(k, m)
{ &s[from..to] }

// X7 call shim for `string.len()` on a &str (vstd specifies str::len for ASCII strings only):
// the UTF-8 length
#[verifier::external_body]
pub fn vx_str_len(s: &str) -> (r: usize)
    ensures r as int == blen(s@)
{ s.len() }

// X7 call shim for `&buffer[..n]`
#[verifier::external_body]
pub fn vx_array_prefix<'a>(b: &'a [u8; 1024], n: usize) -> (r: &'a [u8])
    requires n <= 1024
    ensures r@ == b@.take(n as int)
{ &b[..n] }

// ---- decoding ---------------------------------------------------------------------------------
// per-page decoding of a byte string (total: malformed sequences become U+FFFD)
pub uninterp spec fn dec_page(cp: CodePage, b: Seq<u8>) -> Seq<char>;
pub uninterp spec fn dec_utf8(b: Seq<u8>) -> Seq<char>;
pub uninterp spec fn dec_utf16le(b: Seq<u8>) -> Seq<char>;
pub uninterp spec fn dec_utf16be(b: Seq<u8>) -> Seq<char>;
pub open spec fn has_prefix(b: Seq<u8>, p: Seq<u8>) -> bool { b.len() >= p.len() && b.take(p.len() as int) == p }
// what encoding_rs documents for `Encoding::decode`: "BOM sniffing" -- input that starts with a
// UTF-8 / UTF-16LE / UTF-16BE byte order mark is decoded in THAT encoding, without the mark,
// whatever encoding `decode` was called on; otherwise in the page's own encoding
pub open spec fn dec_sniffing(cp: CodePage, b: Seq<u8>) -> Seq<char> {
    if has_prefix(b, seq![0xefu8, 0xbbu8, 0xbfu8]) { dec_utf8(b.skip(3)) }
    else if has_prefix(b, seq![0xffu8, 0xfeu8]) { dec_utf16le(b.skip(2)) }
    else if has_prefix(b, seq![0xfeu8, 0xffu8]) { dec_utf16be(b.skip(2)) }
    else { dec_page(cp, b) }
}
// X7 call shims for `enc.decode(bytes).0.into_owned()` and
// `enc.decode_without_bom_handling(bytes).0.into_owned()`
#[verifier::external_body]
pub fn vx_decode_sniffing(enc: &'static Encoding, bytes: &[u8]) -> (r: String)
    ensures r@ == dec_sniffing(enc.page(), bytes@)
{ unimplemented!() }
#[verifier::external_body]
pub fn vx_decode_plain(enc: &'static Encoding, bytes: &[u8]) -> (r: String)
    ensures r@ == dec_page(enc.page(), bytes@)
{ unimplemented!() }

// `slice.to_vec()` (a natural way to return a prefix of the scratch buffer): element-wise clone
pub assume_specification<T: Clone>[ <[T]>::to_vec ](s: &[T]) -> (r: Vec<T>)
    ensures
        r@.len() == s@.len(),
        forall|i: int| 0 <= i < s@.len() ==> call_ensures(T::clone, (&#[trigger] s@[i],), r@[i]);
