// ---- prelude/pslayout.rs: the WRITER-side layout of a property-set stream, shared text of groups `serial`
// (PropertySet::write is proved to produce it) and `pspair` (where it meets the reader-side layout)
pub open spec fn pv_size(v: PropertyValue, cp: CodePage) -> int {
    match v {
        PropertyValue::Empty => 4,
        PropertyValue::Null => 4,
        PropertyValue::I1(_) => 8,
        PropertyValue::I2(_) => 8,
        PropertyValue::I4(_) => 8,
        PropertyValue::LpStr(s) => 8 + pad4(enc_bytes(cp, s@).len() as int + 1),
        PropertyValue::FileTime(_) => 12,
    }
}
// bytes taken by the first k values of the entries es (in key order), in code page cp
pub open spec fn es_upto(es: Seq<(u32, PropertyValue)>, cp: CodePage, k: int) -> int
    decreases k
{
    if k <= 0 { 0 } else { es_upto(es, cp, k - 1) + pv_size(es[k - 1].1, cp) }
}
// offset (relative to the section) of value i: section header (8) + table (8 per property) + earlier values
pub open spec fn es_off(es: Seq<(u32, PropertyValue)>, cp: CodePage, i: int) -> int { 8 + 8 * es.len() + es_upto(es, cp, i) }
// a whole stream b holding the entries es: the 48-byte header ends with the section offset 48; the
// section is its exact size, the count, one (id, offset) pair per entry, then every value, WHOLE,
// at its offset
pub open spec fn written(b: Seq<u8>, es: Seq<(u32, PropertyValue)>, cp: CodePage) -> bool {
    let n = es.len() as int;
    &&& es_off(es, cp, n) <= 0xffff_ffff
    &&& b.len() == 48 + es_off(es, cp, n)
    &&& b.subrange(44, 48) == le32(48)
    &&& b.subrange(48, 52) == le32(es_off(es, cp, n) as u32)
    &&& b.subrange(52, 56) == le32(n as u32)
    &&& (forall|i: int| 0 <= i < n ==> #[trigger] b.subrange(56 + 8 * i, 56 + 8 * i + 8) == le32(es[i].0) + le32(es_off(es, cp, i) as u32))
    &&& (forall|i: int| 0 <= i < n ==> #[trigger] b.subrange(48 + es_off(es, cp, i), 48 + es_off(es, cp, i + 1)) == pv_bytes(es[i].1, cp))
}
