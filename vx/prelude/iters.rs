// ---- prelude/iters.rs (trusted: slice::Iter::enumerate) ----------------------
// X7 call shim for `xs.iter().enumerate()` (Iterator::enumerate is a provided
// trait method: no assume_specification possible).  The adaptor yields the
// remaining items of the inner iterator paired with 0, 1, 2, ...
#[verifier::external_type_specification]
#[verifier::external_body]
#[verifier::reject_recursive_types(I)]
pub struct ExEnumerate<I>(core::iter::Enumerate<I>);

#[verifier::external_body]
pub fn vx_enumerate<'a, T>(it: core::slice::Iter<'a, T>) -> (r: core::iter::Enumerate<core::slice::Iter<'a, T>>)
    ensures
        vstd::std_specs::iter::IteratorSpec::remaining(&r).len() == vstd::std_specs::iter::IteratorSpec::remaining(&it).len(),
        forall|k: int| 0 <= k < vstd::std_specs::iter::IteratorSpec::remaining(&it).len() ==>
            (#[trigger] vstd::std_specs::iter::IteratorSpec::remaining(&r)[k]).0 as int == k
            && vstd::std_specs::iter::IteratorSpec::remaining(&r)[k].1 == vstd::std_specs::iter::IteratorSpec::remaining(&it)[k],
{
    it.enumerate()
}

// Iterator laws of Enumerate<slice::Iter<T>> (TRUSTED AXIOM; vstd's `for` loops
// reason through IteratorSpec, which is uninterpreted for foreign adaptors).
pub broadcast axiom fn axiom_enumerate_iter_laws<'a, T>(e: core::iter::Enumerate<core::slice::Iter<'a, T>>)
    ensures
        #[trigger] vstd::std_specs::iter::IteratorSpec::obeys_prophetic_iter_laws(&e),
        vstd::std_specs::iter::IteratorSpec::decrease(&e) == Some(vstd::std_specs::iter::IteratorSpec::remaining(&e).len());
