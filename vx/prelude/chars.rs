// ---- prelude/chars.rs (trusted std specs: char classification, Peekable) -----
pub assume_specification[ char::is_ascii_digit ](c: &char) -> (r: bool)
    ensures r == ('0' <= *c && *c <= '9');
pub assume_specification[ char::is_ascii_uppercase ](c: &char) -> (r: bool)
    ensures r == ('A' <= *c && *c <= 'Z');
pub assume_specification[ char::is_ascii_lowercase ](c: &char) -> (r: bool)
    ensures r == ('a' <= *c && *c <= 'z');
pub assume_specification[ char::is_ascii ](c: &char) -> (r: bool)
    ensures r == ((*c as u32) < 128);

// char::from_u32: Some exactly for Unicode scalar values
pub open spec fn is_scalar(x: u32) -> bool { x < 0xD800 || (0xE000 <= x && x <= 0x10FFFF) }
pub assume_specification[ char::from_u32 ](x: u32) -> (r: Option<char>)
    ensures
        is_scalar(x) ==> r is Some && r->Some_0 as u32 == x,
        !is_scalar(x) ==> r is None;

// Peekable<Chars>: viewed as the sequence of chars still to be produced.
#[verifier::external_type_specification]
#[verifier::external_body]
#[verifier::reject_recursive_types(I)]
pub struct ExPeekable<I: Iterator>(core::iter::Peekable<I>);

pub uninterp spec fn pk_rem<I: Iterator>(p: core::iter::Peekable<I>) -> Seq<I::Item>;

// X7 call shim for `name.chars().peekable()` (provided trait method: no assume_specification possible)
#[verifier::external_body]
pub fn vx_peekable<'a>(c: core::str::Chars<'a>) -> (r: core::iter::Peekable<core::str::Chars<'a>>)
    ensures pk_rem(r) == vstd::std_specs::iter::IteratorSpec::remaining(&c)
{
    c.peekable()
}

pub assume_specification<I: Iterator>[ <core::iter::Peekable<I> as Iterator>::next ](p: &mut core::iter::Peekable<I>) -> (r: Option<I::Item>)
    ensures
        pk_rem(*old(p)).len() == 0 ==> r is None && pk_rem(*final(p)).len() == 0,
        pk_rem(*old(p)).len() > 0 ==> r == Some(pk_rem(*old(p))[0]) && pk_rem(*final(p)) == pk_rem(*old(p)).skip(1);

pub assume_specification<I: Iterator>[ core::iter::Peekable::<I>::peek ](p: &mut core::iter::Peekable<I>) -> (r: Option<&I::Item>)
    ensures
        pk_rem(*final(p)) == pk_rem(*old(p)),
        pk_rem(*old(p)).len() == 0 ==> r is None,
        pk_rem(*old(p)).len() > 0 ==> r is Some && *r->Some_0 == pk_rem(*old(p))[0];

// Iterator laws of Peekable<Chars> (TRUSTED AXIOM).  vstd's `for` loops reason
// through IteratorSpec, whose members are uninterpreted for foreign adaptors
// (the orphan rule forbids implementing IteratorSpecImpl for Peekable here).
// This axiom identifies them with pk_rem: the adaptor yields exactly the
// remaining chars, in order, and then stops.
pub broadcast axiom fn axiom_peekable_chars_iter_laws<'a>(p: core::iter::Peekable<core::str::Chars<'a>>)
    ensures
        #[trigger] vstd::std_specs::iter::IteratorSpec::obeys_prophetic_iter_laws(&p),
        vstd::std_specs::iter::IteratorSpec::remaining(&p) == pk_rem(p),
        vstd::std_specs::iter::IteratorSpec::decrease(&p) == Some(pk_rem(p).len());
