// ---- prelude/langtable.rs (trusted shims for language.rs) --------------------
// X7 shim by name: `LANGUAGES` (a const slice of tuples with elided 'static
// lifetimes, which the verus! macro does not accept) is reached through this
// accessor, whose body is the constant itself.  Contracts of from_tag / tag are
// stated RELATIVE to the table (`lang_table()`), so no table content is assumed.
pub uninterp spec fn lang_table() -> Seq<(u16, &'static str, &'static [(u16, &'static str)])>;

#[verifier::external_body]
pub fn vx_languages() -> (r: &'static [(u16, &'static str, &'static [(u16, &'static str)])])
    ensures r@ == lang_table()
{
    LANGUAGES
}

