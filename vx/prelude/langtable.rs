// ---- prelude/langtable.rs (trusted shims for language.rs) --------------------
// X7 shim by name: `LANGUAGES` (a const slice of tuples with elided 'static
// lifetimes, which the verus! macro does not accept) is reached through this
// accessor, whose body is the constant itself.  Contracts of from_tag / tag are
// stated RELATIVE to the table (`lang_table()`), so no table content is assumed.
pub uninterp spec fn lang_table() -> Seq<(u16, &'static str, &'static [(u16, &'static str)])>;

#[verifier::external_body]
pub fn vx_languages() -> (r: &'static [(u16, &'static str, &'static [(u16, &'static str)])])
    ensures r@ == lang_table()
{
    LANGUAGES
}

// X7 call shim for `tag.splitn(2, '-').collect()`: at most two parts, split at the first '-'
pub open spec fn first_dash(s: Seq<char>) -> int
    decreases s.len()
{
    if s.len() == 0 { -1 } else if s[0] == '-' { 0 } else { let r = first_dash(s.skip(1)); if r < 0 { -1 } else { r + 1 } }
}
#[verifier::external_body]
pub fn vx_splitn2<'a>(s: &'a str, sep: char) -> (r: Vec<&'a str>)
    requires sep == '-'
    ensures
        first_dash(s@) < 0 ==> r@.len() == 1 && r@[0]@ == s@,
        first_dash(s@) >= 0 ==> r@.len() == 2 && r@[0]@ == s@.take(first_dash(s@)) && r@[1]@ == s@.skip(first_dash(s@) + 1),
{
    s.splitn(2, sep).collect()
}
