// ---- prelude/langtable.rs (trusted shims for language.rs) --------------------
// X7 shim by name: `LANGUAGES` (a const slice of tuples with elided 'static
// lifetimes, which the verus! macro does not accept) is reached through this
// accessor, whose body is the constant itself.  Contracts of from_tag / tag are
// stated RELATIVE to the table (`lang_table()`), so no table content is assumed.
pub uninterp spec fn lang_table() -> Seq<(u16, &'static str, &'static [(u16, &'static str)])>;

#[verifier::external_body]
pub fn vx_languages() -> (r: &'static [(u16, &'static str, &'static [(u16, &'static str)])])
    ensures r@ == lang_table()
{
    LANGUAGES
}


// X7 call shim for `s.binary_search_by_key(&k, |t| t.0)` on a slice of tuples whose first field is
// the u16 key.  std documents the result only for a slice SORTED by the key, so the whole contract
// is conditional on (strict) sortedness: Ok(i) is the position of k, Err means k is absent.
pub trait VKey0 { spec fn key0(&self) -> u16; }
impl VKey0 for (u16, &'static str) { open spec fn key0(&self) -> u16 { self.0 } }
impl VKey0 for (u16, &'static str, &'static [(u16, &'static str)]) { open spec fn key0(&self) -> u16 { self.0 } }
pub open spec fn key0_sorted<T: VKey0>(s: Seq<T>) -> bool {
    forall|a: int, b: int| 0 <= a < b < s.len() ==> (#[trigger] s[a]).key0() < (#[trigger] s[b]).key0()
}
#[verifier::external_body]
pub fn vx_bsearch_key0<T: VKey0>(s: &[T], k: u16) -> (r: Result<usize, usize>)
    ensures key0_sorted(s@) ==> (match r {
        Ok(i) => i < s@.len() && s@[i as int].key0() == k,
        Err(_) => forall|i: int| 0 <= i < s@.len() ==> (#[trigger] s@[i]).key0() != k,
    })
{ unimplemented!() }

// TABLE FACT, checked on the real table by the Kani harness language::vk::lang_table_sorted
// (complete: symbolic positions): the language table and every sublanguage list are strictly
// sorted by their numeric key.
pub axiom fn axiom_lang_table_sorted()
    ensures
        key0_sorted(lang_table()),
        forall|i: int| 0 <= i < lang_table().len() ==> key0_sorted((#[trigger] lang_table()[i]).2@);
