// ---- prelude/rowshim.rs (trusted call shims shared by groups `rows` and `serial`) -----------
// X7 call shim for `self.columns.iter().map(|col| col.coltype().width(self.long_string_refs)).sum::<u64>()`
#[verifier::external_body]
pub fn vx_row_size(cols: &Vec<Column>, long: bool) -> (r: u64)
    ensures r as int == row_width(cols@, long, cols@.len() as int)
{
    cols.iter().map(|col| col.coltype().width(long)).sum::<u64>()
}
// X7 call shim for `vec![Vec::<ValueRef>::with_capacity(c); n]`: n empty rows
#[verifier::external_body]
pub fn vx_rows_init(c: usize, n: usize) -> (r: Vec<Vec<ValueRef>>)
    ensures r@.len() == n, forall|i: int| 0 <= i < n ==> (#[trigger] r@[i])@.len() == 0
{
    vec![Vec::<ValueRef>::with_capacity(c); n]
}

