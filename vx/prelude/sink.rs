// ---- prelude/sink.rs (trusted) -------------------------------------------------
// X3: a generic `W: Write` parameter becomes `W: VWrite`, a trait that states exactly what the
// documented `Write` contract lets generic code assume about a writer such as cfb::Stream:
//   * `bytes()`      -- every byte accepted so far (a successful write appends);
//   * `committed()`  -- how many of those bytes are known to have reached the medium:
//                       only a successful flush() advances it to bytes().len();
//   * `any_failed()` -- some call on this writer has returned Err so far;
//   * a write never UN-commits anything (committed() does not decrease) -- and for an arbitrary
//     writer it commits nothing either; that is all generic code may assume, so a serializer can
//     only establish committed() == bytes().len() by a successful flush() after its last write;
//   * any call may fail (Err): then nothing is promised about the bytes.
// Two writers implement it: VSink (an arbitrary writer: any call may fail, nothing is committed
// before a flush) and Vec<u8> (std's `impl Write for Vec<u8>`: never fails, and what it holds
// is all there is -- committed() == len).  The byteorder extension methods
// (write_u16::<LittleEndian> etc., turbofish dropped by X3) are little-endian appends.
pub struct VSink {
    pub data: Ghost<Seq<u8>>,
    pub flushed: Ghost<int>,
    pub failed: Ghost<bool>,
}

pub open spec fn le16(v: u16) -> Seq<u8> { seq![(v & 0xff) as u8, ((v >> 8) & 0xff) as u8] }
pub open spec fn le32(v: u32) -> Seq<u8> {
    seq![(v & 0xff) as u8, ((v >> 8) & 0xff) as u8, ((v >> 16) & 0xff) as u8, ((v >> 24) & 0xff) as u8]
}

pub trait VWrite: Sized {
    spec fn bytes(&self) -> Seq<u8>;
    spec fn committed(&self) -> int;
    spec fn any_failed(&self) -> bool;

    fn write_u8(&mut self, v: u8) -> (r: std::io::Result<()>)
        ensures r is Ok ==> final(self).bytes() == old(self).bytes() + seq![v] && final(self).committed() >= old(self).committed(),
            r is Err ==> final(self).any_failed(),
            r is Ok ==> final(self).any_failed() == old(self).any_failed(),
    ;

    fn write_u16(&mut self, v: u16) -> (r: std::io::Result<()>)
        ensures r is Ok ==> final(self).bytes() == old(self).bytes() + le16(v) && final(self).committed() >= old(self).committed(),
            r is Err ==> final(self).any_failed(),
            r is Ok ==> final(self).any_failed() == old(self).any_failed(),
    ;

    fn write_i16(&mut self, v: i16) -> (r: std::io::Result<()>)
        ensures r is Ok ==> final(self).bytes() == old(self).bytes() + le16(v as u16) && final(self).committed() >= old(self).committed(),
            r is Err ==> final(self).any_failed(),
            r is Ok ==> final(self).any_failed() == old(self).any_failed(),
    ;

    fn write_u32(&mut self, v: u32) -> (r: std::io::Result<()>)
        ensures r is Ok ==> final(self).bytes() == old(self).bytes() + le32(v) && final(self).committed() >= old(self).committed(),
            r is Err ==> final(self).any_failed(),
            r is Ok ==> final(self).any_failed() == old(self).any_failed(),
    ;

    fn write_i32(&mut self, v: i32) -> (r: std::io::Result<()>)
        ensures r is Ok ==> final(self).bytes() == old(self).bytes() + le32(v as u32) && final(self).committed() >= old(self).committed(),
            r is Err ==> final(self).any_failed(),
            r is Ok ==> final(self).any_failed() == old(self).any_failed(),
    ;

    fn write_i8(&mut self, v: i8) -> (r: std::io::Result<()>)
        ensures r is Ok ==> final(self).bytes() == old(self).bytes() + seq![v as u8] && final(self).committed() >= old(self).committed(),
            r is Err ==> final(self).any_failed(),
            r is Ok ==> final(self).any_failed() == old(self).any_failed(),
    ;

    fn write_u64(&mut self, v: u64) -> (r: std::io::Result<()>)
        ensures r is Ok ==> final(self).bytes() == old(self).bytes() + le32((v & 0xffff_ffff) as u32) + le32((v >> 32) as u32) && final(self).committed() >= old(self).committed(),
            r is Err ==> final(self).any_failed(),
            r is Ok ==> final(self).any_failed() == old(self).any_failed(),
    ;

    fn write_all(&mut self, buf: &Vec<u8>) -> (r: std::io::Result<()>)
        ensures r is Ok ==> final(self).bytes() == old(self).bytes() + buf@ && final(self).committed() >= old(self).committed(),
            r is Err ==> final(self).any_failed(),
            r is Ok ==> final(self).any_failed() == old(self).any_failed(),
    ;

    fn write_all16(&mut self, buf: &[u8; 16]) -> (r: std::io::Result<()>)
        ensures r is Ok ==> final(self).bytes() == old(self).bytes() + buf@ && final(self).committed() >= old(self).committed(),
            r is Err ==> final(self).any_failed(),
            r is Ok ==> final(self).any_failed() == old(self).any_failed(),
    ;

    fn flush(&mut self) -> (r: std::io::Result<()>)
        ensures r is Ok ==> final(self).bytes() == old(self).bytes() && final(self).committed() == final(self).bytes().len(),
            r is Err ==> final(self).any_failed(),
            r is Ok ==> final(self).any_failed() == old(self).any_failed(),
    ;

}

impl VWrite for VSink {
    closed spec fn bytes(&self) -> Seq<u8> { self.data@ }
    closed spec fn committed(&self) -> int { self.flushed@ }
    closed spec fn any_failed(&self) -> bool { self.failed@ }

    #[verifier::external_body]
    fn write_u8(&mut self, v: u8) -> (r: std::io::Result<()>)
    { unimplemented!() }

    #[verifier::external_body]
    fn write_u16(&mut self, v: u16) -> (r: std::io::Result<()>)
    { unimplemented!() }

    #[verifier::external_body]
    fn write_i16(&mut self, v: i16) -> (r: std::io::Result<()>)
    { unimplemented!() }

    #[verifier::external_body]
    fn write_u32(&mut self, v: u32) -> (r: std::io::Result<()>)
    { unimplemented!() }

    #[verifier::external_body]
    fn write_i32(&mut self, v: i32) -> (r: std::io::Result<()>)
    { unimplemented!() }

    #[verifier::external_body]
    fn write_i8(&mut self, v: i8) -> (r: std::io::Result<()>)
    { unimplemented!() }

    #[verifier::external_body]
    fn write_u64(&mut self, v: u64) -> (r: std::io::Result<()>)
    { unimplemented!() }

    #[verifier::external_body]
    fn write_all(&mut self, buf: &Vec<u8>) -> (r: std::io::Result<()>)
    { unimplemented!() }

    #[verifier::external_body]
    fn write_all16(&mut self, buf: &[u8; 16]) -> (r: std::io::Result<()>)
    { unimplemented!() }

    #[verifier::external_body]
    fn flush(&mut self) -> (r: std::io::Result<()>)
    { unimplemented!() }

}

// std: `impl Write for Vec<u8>` appends and never fails; flush is a no-op
impl VWrite for Vec<u8> {
    open spec fn bytes(&self) -> Seq<u8> { self@ }
    open spec fn committed(&self) -> int { self@.len() as int }
    open spec fn any_failed(&self) -> bool { false }

    #[verifier::external_body]
    fn write_u8(&mut self, v: u8) -> (r: std::io::Result<()>)
    { unimplemented!() }

    #[verifier::external_body]
    fn write_u16(&mut self, v: u16) -> (r: std::io::Result<()>)
    { unimplemented!() }

    #[verifier::external_body]
    fn write_i16(&mut self, v: i16) -> (r: std::io::Result<()>)
    { unimplemented!() }

    #[verifier::external_body]
    fn write_u32(&mut self, v: u32) -> (r: std::io::Result<()>)
    { unimplemented!() }

    #[verifier::external_body]
    fn write_i32(&mut self, v: i32) -> (r: std::io::Result<()>)
    { unimplemented!() }

    #[verifier::external_body]
    fn write_i8(&mut self, v: i8) -> (r: std::io::Result<()>)
    { unimplemented!() }

    #[verifier::external_body]
    fn write_u64(&mut self, v: u64) -> (r: std::io::Result<()>)
    { unimplemented!() }

    #[verifier::external_body]
    fn write_all(&mut self, buf: &Vec<u8>) -> (r: std::io::Result<()>)
    { unimplemented!() }

    #[verifier::external_body]
    fn write_all16(&mut self, buf: &[u8; 16]) -> (r: std::io::Result<()>)
    { unimplemented!() }

    #[verifier::external_body]
    fn flush(&mut self) -> (r: std::io::Result<()>)
    { unimplemented!() }

}
