// ---- prelude/sink.rs (trusted) -------------------------------------------------
// X3: a generic `W: Write` parameter is instantiated with VSink, which models
// exactly what the documented `Write` contract lets generic code assume about a
// writer such as cfb::Stream:
//   * `data`    -- every byte accepted so far (a successful write appends);
//   * `flushed` -- how many of those bytes are known to have reached the medium:
//                  only a successful flush() advances it to data.len();
//   * any call may fail (Err): then nothing is promised about the sink.
// The byteorder extension methods (write_u16::<LittleEndian> etc., turbofish
// dropped by X3) are modelled as little-endian appends.
pub struct VSink {
    pub data: Ghost<Seq<u8>>,
    pub flushed: Ghost<int>,
    pub failed: Ghost<bool>,
}

pub open spec fn le16(v: u16) -> Seq<u8> { seq![(v & 0xff) as u8, ((v >> 8) & 0xff) as u8] }
pub open spec fn le32(v: u32) -> Seq<u8> {
    seq![(v & 0xff) as u8, ((v >> 8) & 0xff) as u8, ((v >> 16) & 0xff) as u8, ((v >> 24) & 0xff) as u8]
}

impl VSink {
    pub closed spec fn bytes(&self) -> Seq<u8> { self.data@ }
    pub closed spec fn committed(&self) -> int { self.flushed@ }
    // some call on this sink has returned Err so far ("the writer failed"): lets a serializer's
    // contract say that an Err it returns WITHOUT a writer failure has a stated reason
    pub closed spec fn any_failed(&self) -> bool { self.failed@ }

    #[verifier::external_body]
    pub fn write_u8(&mut self, v: u8) -> (r: std::io::Result<()>)
        ensures r is Ok ==> final(self).bytes() == old(self).bytes() + seq![v] && final(self).committed() == old(self).committed(),
            r is Err ==> final(self).any_failed(),
            r is Ok ==> final(self).any_failed() == old(self).any_failed(),
    { unimplemented!() }

    #[verifier::external_body]
    pub fn write_u16(&mut self, v: u16) -> (r: std::io::Result<()>)
        ensures r is Ok ==> final(self).bytes() == old(self).bytes() + le16(v) && final(self).committed() == old(self).committed(),
            r is Err ==> final(self).any_failed(),
            r is Ok ==> final(self).any_failed() == old(self).any_failed(),
    { unimplemented!() }

    #[verifier::external_body]
    pub fn write_i16(&mut self, v: i16) -> (r: std::io::Result<()>)
        ensures r is Ok ==> final(self).bytes() == old(self).bytes() + le16(v as u16) && final(self).committed() == old(self).committed(),
            r is Err ==> final(self).any_failed(),
            r is Ok ==> final(self).any_failed() == old(self).any_failed(),
    { unimplemented!() }

    #[verifier::external_body]
    pub fn write_u32(&mut self, v: u32) -> (r: std::io::Result<()>)
        ensures r is Ok ==> final(self).bytes() == old(self).bytes() + le32(v) && final(self).committed() == old(self).committed(),
            r is Err ==> final(self).any_failed(),
            r is Ok ==> final(self).any_failed() == old(self).any_failed(),
    { unimplemented!() }

    #[verifier::external_body]
    pub fn write_i32(&mut self, v: i32) -> (r: std::io::Result<()>)
        ensures r is Ok ==> final(self).bytes() == old(self).bytes() + le32(v as u32) && final(self).committed() == old(self).committed(),
            r is Err ==> final(self).any_failed(),
            r is Ok ==> final(self).any_failed() == old(self).any_failed(),
    { unimplemented!() }

    #[verifier::external_body]
    pub fn write_i8(&mut self, v: i8) -> (r: std::io::Result<()>)
        ensures r is Ok ==> final(self).bytes() == old(self).bytes() + seq![v as u8] && final(self).committed() == old(self).committed(),
            r is Err ==> final(self).any_failed(),
            r is Ok ==> final(self).any_failed() == old(self).any_failed(),
    { unimplemented!() }

    #[verifier::external_body]
    pub fn write_u64(&mut self, v: u64) -> (r: std::io::Result<()>)
        ensures r is Ok ==> final(self).bytes() == old(self).bytes() + le32((v & 0xffff_ffff) as u32) + le32((v >> 32) as u32) && final(self).committed() == old(self).committed(),
            r is Err ==> final(self).any_failed(),
            r is Ok ==> final(self).any_failed() == old(self).any_failed(),
    { unimplemented!() }

    #[verifier::external_body]
    pub fn write_all(&mut self, buf: &Vec<u8>) -> (r: std::io::Result<()>)
        ensures r is Ok ==> final(self).bytes() == old(self).bytes() + buf@ && final(self).committed() == old(self).committed(),
            r is Err ==> final(self).any_failed(),
            r is Ok ==> final(self).any_failed() == old(self).any_failed(),
    { unimplemented!() }

    #[verifier::external_body]
    pub fn write_all16(&mut self, buf: &[u8; 16]) -> (r: std::io::Result<()>)
        ensures r is Ok ==> final(self).bytes() == old(self).bytes() + buf@ && final(self).committed() == old(self).committed(),
            r is Err ==> final(self).any_failed(),
            r is Ok ==> final(self).any_failed() == old(self).any_failed(),
    { unimplemented!() }

    #[verifier::external_body]
    pub fn flush(&mut self) -> (r: std::io::Result<()>)
        ensures r is Ok ==> final(self).bytes() == old(self).bytes() && final(self).committed() == final(self).bytes().len(),
            r is Err ==> final(self).any_failed(),
            r is Ok ==> final(self).any_failed() == old(self).any_failed(),
    { unimplemented!() }
}
