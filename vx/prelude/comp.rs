// ---- prelude/comp.rs (trusted model of the cfb container, used by group `finish`) ----------
// X3c: `cfb::CompoundFile<F>` is replaced by VComp and the streams it hands out by VStream.
// What the model states is what cfb documents and C15 names as the dependency behaviour:
//   * `create_stream(name)` returns a fresh, empty, buffered stream (or an error);
//   * bytes written to a stream reach the medium only through a successful flush();
//   * dropping a stream flushes its buffer but DISCARDS the result: a stream dropped with
//     unflushed bytes may silently lose them.
// VComp keeps a ghost log of the streams created: (name, id); ids are positions in the log.
pub struct VComp { pub log: Ghost<Seq<(Seq<char>, int)>>, pub names: Ghost<Set<Seq<char>>> }
pub struct VStream { pub id: Ghost<int>, pub data: Ghost<Seq<u8>>, pub flushed: Ghost<int>, pub created: Ghost<bool> }

// "the stream with this id was completed": everything written to it was flushed successfully
// before it was dropped.  A timeless predicate over ids: an id is handed out once and its stream
// (not Clone) is consumed once -- by a serializer under contract (group `serial` proves that such
// a serializer returns Ok only after a successful flush that follows its last write) or by the
// explicit scope-end drop (X11), whose precondition is that nothing is unflushed.
pub uninterp spec fn stream_done(id: int) -> bool;

pub trait VPath { spec fn text(&self) -> Seq<char>; }
impl VPath for &str { open spec fn text(&self) -> Seq<char> { (*self)@ } }
impl VPath for String { open spec fn text(&self) -> Seq<char> { self@ } }
impl VPath for &String { open spec fn text(&self) -> Seq<char> { (*self)@ } }

impl VComp {
    pub closed spec fn log(&self) -> Seq<(Seq<char>, int)> { self.log@ }
    // the names of the streams in the root storage
    pub closed spec fn names(&self) -> Set<Seq<char>> { self.names@ }

    #[verifier::external_body]
    pub fn is_stream<P: VPath>(&self, p: P) -> (r: bool)
        ensures r == self.names().contains(p.text())
    { unimplemented!() }

    // `exists`: in this model the directory holds streams only
    #[verifier::external_body]
    pub fn exists<P: VPath>(&self, p: P) -> (r: bool)
        ensures r == self.names().contains(p.text())
    { unimplemented!() }

    // `create_new_stream`: as create_stream, but refuses a name that already exists
    #[verifier::external_body]
    pub fn create_new_stream<P: VPath>(&mut self, p: P) -> (r: std::io::Result<VStream>)
        ensures
            r is Ok ==> !old(self).names().contains(p.text())
                && final(self).log() == old(self).log().push((p.text(), r->Ok_0.sid()))
                && r->Ok_0.sid() == old(self).log().len() && r->Ok_0.clean() && r->Ok_0.fresh()
                && final(self).names() == old(self).names().insert(p.text()),
            r is Err ==> final(self).log() == old(self).log(),
    { unimplemented!() }

    // opening an existing stream changes nothing in the directory
    #[verifier::external_body]
    pub fn open_stream<P: VPath>(&mut self, p: P) -> (r: std::io::Result<VStream>)
        ensures
            final(self).log() == old(self).log(),
            final(self).names() == old(self).names(),
            r is Ok ==> old(self).names().contains(p.text()) && !r->Ok_0.fresh(),
    { unimplemented!() }

    // removing a stream: on success exactly that name disappears (on an I/O error nothing is
    // promised about the directory)
    #[verifier::external_body]
    pub fn remove_stream<P: VPath>(&mut self, p: P) -> (r: std::io::Result<()>)
        ensures
            final(self).log() == old(self).log(),
            r is Ok ==> final(self).names() == old(self).names().remove(p.text()),
    { unimplemented!() }

    #[verifier::external_body]
    pub fn create_stream<P: VPath>(&mut self, p: P) -> (r: std::io::Result<VStream>)
        ensures
            r is Ok ==> final(self).log() == old(self).log().push((p.text(), r->Ok_0.sid()))
                && r->Ok_0.sid() == old(self).log().len() && r->Ok_0.clean() && r->Ok_0.fresh(),
            // (the same, spelled out so that the facts about earlier entries propagate by themselves)
            r is Ok ==> final(self).log().len() == old(self).log().len() + 1
                && final(self).log()[old(self).log().len() as int] == (p.text(), r->Ok_0.sid())
                && (forall|i: int| 0 <= i < old(self).log().len() ==> final(self).log()[i] == #[trigger] old(self).log()[i]),
            r is Err ==> final(self).log() == old(self).log(),
            // on success the name exists (created, or truncated if it existed)
            r is Ok ==> final(self).names() == old(self).names().insert(p.text()),
    { unimplemented!() }
}

impl VComp {
    // `CompoundFile::flush`: flushes the underlying medium.  Streams are not tracked by it: a
    // stream's buffered bytes are the stream's own business (see VStream).
    pub uninterp spec fn medium_flushed(&self) -> bool;
    #[verifier::external_body]
    pub fn flush(&mut self) -> (r: std::io::Result<()>)
        ensures
            final(self).log() == old(self).log(),
            final(self).names() == old(self).names(),
            r is Ok ==> final(self).medium_flushed(),
    { unimplemented!() }
}

impl VStream {
    pub closed spec fn sid(&self) -> int { self.id@ }
    // the stream was handed out by create_stream: it starts EMPTY (an existing stream of that
    // name was truncated); a stream from open_stream keeps its old content
    pub closed spec fn fresh(&self) -> bool { self.created@ }
    // nothing accepted by the stream is still unflushed
    pub closed spec fn clean(&self) -> bool { self.flushed@ == self.data@.len() }

    #[verifier::external_body]
    pub fn write_all(&mut self, buf: &Vec<u8>) -> (r: std::io::Result<()>)
        ensures
            final(self).sid() == old(self).sid(),
            r is Ok && buf@.len() == 0 ==> final(self).clean() == old(self).clean(),
            r is Ok && buf@.len() > 0 ==> !final(self).clean(),
    { unimplemented!() }

    #[verifier::external_body]
    pub fn flush(&mut self) -> (r: std::io::Result<()>)
        ensures
            final(self).sid() == old(self).sid(),
            r is Ok ==> final(self).clean(),
    { unimplemented!() }
}

// X11: the end of a stream's scope (Drop for cfb::Stream ignores the result of its final flush)
#[verifier::external_body]
pub fn vx_drop(s: VStream)
    requires s.clean()
    ensures stream_done(s.sid())
{ }

// X3v: what a serializer generic in `W: Write` may be handed by the code under contract
pub trait VWriter { spec fn wid(&self) -> int; }
impl VWriter for VStream { open spec fn wid(&self) -> int { self.sid() } }
impl VWriter for &mut Vec<u8> { open spec fn wid(&self) -> int { -1 } }
