#!/usr/bin/env python3
"""Run one Verus unit group: extract from /repo, verify, classify diagnostics."""
import json
import os
import re
import subprocess
import sys
import time

HERE = os.path.dirname(os.path.abspath(__file__))
sys.path.insert(0, HERE)
import extract  # noqa: E402

VERIF = os.path.dirname(HERE)
WORK = os.path.join(VERIF, ".work", "vx")

# Verus messages that are *verdicts* about the program (an obligation is false
# or could not be proved for this text); everything else at level error is a
# tool/subset problem and makes the result UNDECIDED.
SEMANTIC = [
    "postcondition not satisfied",
    "precondition not satisfied",
    "assertion failed",
    "possible arithmetic underflow/overflow",
    "possible bit shift underflow/overflow",
    "possible division by zero",
    "invariant not satisfied",
    "decreases not satisfied",
    "could not prove termination",
    "unreachable_unchecked",
    "cannot show invariant holds",
    "possible out of bounds",
    "requires not satisfied",
]
NOISE = ["aborting due to", "not all errors may have been reported", "verification results"]


def classify(msg):
    for s in SEMANTIC:
        if s in msg:
            return "semantic"
    if "rlimit" in msg.lower() or "resource limit" in msg.lower():
        return "rlimit"
    for s in NOISE:
        if s in msg:
            return "noise"
    return "tool"


def _auto_consts(text, linemap, meta, repo, stderr, tpath):
    """A refactor may introduce a named constant (`const MAX_X: u32 = ..`) that the template
    does not know.  Constants carry no contract, so including them verbatim is harmless:
    when rustc reports `cannot find value `X`` and a `const X` exists in a source file the
    group already extracts from, it is appended (logged as rule X1:auto-const)."""
    names = set(re.findall(r"cannot find value `([A-Z][A-Z0-9_]*)` in this scope", stderr))
    if not names:
        return None
    files = sorted(set(k.split("::")[0] for k in meta["hashes"]))
    # the group's own files first, then the rest of the crate (a constant imported with `use`)
    idir = os.path.join(repo, "src", "internal")
    if os.path.isdir(idir):
        files += sorted("src/internal/" + f for f in os.listdir(idir) if f.endswith(".rs") and "src/internal/" + f not in files)
    added = []
    for n in sorted(names):
        for rel in files:
            p = os.path.join(repo, rel)
            if not os.path.exists(p):
                continue
            src = open(p).read()
            masked = extract.mask_source(src)
            for it in extract.list_items(src, masked, 0, len(src), 0):
                if it[0] == "const" and it[1] == n:
                    added.append((n, rel, src[it[2]:it[3]], src.count("\n", 0, it[2]) + 1))
                    break
            else:
                continue
            break
    if len(added) != len(names):
        return None
    marker = "} // verus!"
    k = text.rfind(marker)
    if k < 0:
        return None
    ins = "".join("// auto-included constant (X1:auto-const) from %s:%d\n%s\n" % (rel, ln, extract.x1_strip(body, set())) for (n, rel, body, ln) in added)
    new_text = text[:k] + ins + text[k:]
    line_at = text.count("\n", 0, k)
    extra = []
    for (n, rel, body, ln) in added:
        extra.append((tpath, 0))
        for j in range(body.count("\n") + 1):
            extra.append((rel, ln + j))
        meta["rules"].setdefault("%s::const %s" % (rel, n), []).append("X1:auto-const")
    new_map = linemap[:line_at] + extra + linemap[line_at:]
    return new_text, new_map


def _auto_helpers(text, linemap, meta, repo, stderr, tpath):
    """A refactor may introduce a small pure helper METHOD the template does not know
    (`fn is_associative(&self) -> bool { matches!(..) }`).  When rustc reports `no method named
    `X` found for .. `T`` and an inherent `impl T` in a source file of the group defines
    `fn X(&self) -> R { body }`, the helper is appended with the strongest contract a pure helper
    can have -- its result equals its own body read as a spec function (rule X12:auto-helper).
    Anything else (other parameters, a body Verus cannot read as a spec) stays UNDECIDED."""
    found = set(re.findall(r"no method named `([a-z_][a-z0-9_]*)` found for (?:reference|struct|enum) `&?(?:mut )?([A-Z][A-Za-z0-9_]*)`", stderr))
    if not found:
        return None
    files = sorted(set(k.split("::")[0] for k in meta["hashes"]))
    added = []
    for (name, ty) in sorted(found):
        hit = None
        for rel in files:
            pth = os.path.join(repo, rel)
            if not os.path.exists(pth):
                continue
            src = open(pth).read()
            masked = extract.mask_source(src)
            for it in extract.list_items(src, masked, 0, len(src), 0):
                if it[0] == "impl" and re.sub(r"\s+", "", it[1]) == ty:
                    b = extract.find_body_open(masked, it[4])
                    for it2 in extract.list_items(src, masked, b + 1, it[3] - 1, 0):
                        if it2[0] == "fn" and it2[1] == name:
                            hit = (rel, src[it2[2]:it2[3]], src.count("\n", 0, it2[2]) + 1)
            if hit:
                break
        if not hit:
            return None
        rel, ftext, ln = hit
        ftext = extract.x1_strip(ftext, set())
        m = re.match(r"\s*(?:pub(?:\([a-z]+\))?\s+)?fn\s+%s\s*\(\s*&self\s*\)\s*->\s*([A-Za-z0-9_:<>]+)\s*\{" % name, ftext)
        if not m:
            return None
        ret = m.group(1)
        body = ftext[m.end() - 1:]
        spec_body = re.sub(r"\*self\b", "vx_s", body)
        spec_body = re.sub(r"\bself\b", "vx_s", spec_body)
        added.append((name, ty, rel, ln, ret, body, spec_body))
    marker = "} // verus!"
    k = text.rfind(marker)
    if k < 0:
        return None
    ins = ""
    for (name, ty, rel, ln, ret, body, spec_body) in added:
        ins += "// auto-included helper (X12:auto-helper) from %s:%d -- contract: the result is its own body read as a spec function\n" % (rel, ln)
        ins += "spec fn vx_auto_%s(vx_s: %s) -> %s %s\n" % (name, ty, ret, spec_body.strip())
        ins += "impl %s {\n    fn %s(&self) -> (r: %s)\n        ensures r == vx_auto_%s(*self)\n    %s\n}\n" % (ty, name, ret, name, body.strip())
        meta["rules"].setdefault("%s::<%s>::%s" % (rel, ty, name), []).append("X12:auto-helper")
    new_text = text[:k] + ins + text[k:]
    line_at = text.count("\n", 0, k)
    extra = [(tpath, 0)] * ins.count("\n")
    new_map = linemap[:line_at] + extra + linemap[line_at:]
    return new_text, new_map


def _run_with_autofix(cmd, out, text, linemap, meta, repo, tpath):
    """run Verus; on `cannot find value` / `no method named` retry once each with the
    auto-included constant / helper (rules X1:auto-const, X12:auto-helper)"""
    p = subprocess.run(cmd, cwd=WORK, capture_output=True, text=True)
    for _ in range(3):  # an auto-included constant may itself name further constants
        if "cannot find value `" not in p.stderr:
            break
        auto = _auto_consts(text, linemap, meta, repo, p.stderr, tpath)
        if not auto:
            break
        text, linemap = auto
        open(out, "w").write(text)
        p = subprocess.run(cmd, cwd=WORK, capture_output=True, text=True)
    if "no method named `" in p.stderr:
        auto = _auto_helpers(text, linemap, meta, repo, p.stderr, tpath)
        if auto:
            text, linemap = auto
            open(out, "w").write(text)
            p = subprocess.run(cmd, cwd=WORK, capture_output=True, text=True)
    return p, text, linemap


def run_group(group, repo="/repo", extra_args=None, keep=False, seed=None):
    """One Verus run; a FAILED result is confirmed under two more solver seeds before it is
    believed: a genuine violation fails under every seed, an unstable proof does not.  Only
    the functions that fail in ALL runs stay failed."""
    r = _run_group_once(group, repo, extra_args, keep, seed)
    if r["status"] == "undecided" and r.get("reason") == "solver resource limit":
        # a resource limit under one solver seed is not yet a limit of the proof: one more try
        r2 = _run_group_once(group, repo, extra_args, keep, (seed or 0) + 17)
        if r2["status"] == "ok":
            r2["seed_retries"] = {"first_seed": seed, "ok_under_seed": (seed or 0) + 17, "note": "resource limit under the first seed"}
            return r2
        return r
    if r["status"] != "failed":
        return r
    runs = [r]
    for alt in ((seed or 0) + 17, (seed or 0) + 41):
        r2 = _run_group_once(group, repo, extra_args, keep, alt)
        runs.append(r2)
        if r2["status"] == "ok":
            r2["seed_retries"] = {"first_seed": seed, "ok_under_seed": alt,
                                  "note": "the first run failed under solver seed %s (unstable proof, not a verdict)" % seed}
            return r2
        if r2["status"] == "undecided":
            return r2
    def failing(x):
        return set(d["function"] for d in x["diags"] if d["kind"] == "semantic")
    common = failing(runs[0])
    for x in runs[1:]:
        common &= failing(x)
    if not common:
        # every function was proved under some seed, though never all in one run
        r["status"] = "undecided"
        r["reason"] = "unstable proofs: no function fails under all of 3 solver seeds, but no single run proved the whole group"
        return r
    r["diags"] = [d for d in r["diags"] if d["kind"] != "semantic" or d["function"] in common]
    r["seed_retries"] = {"seeds": [seed, (seed or 0) + 17, (seed or 0) + 41], "failing_under_all": sorted(str(c) for c in common)}
    return r


def _run_group_once(group, repo="/repo", extra_args=None, keep=False, seed=None):
    os.makedirs(WORK, exist_ok=True)
    tpath = os.path.join(VERIF, "contracts", group + ".vt")
    out = os.path.join(WORK, group + ".rs")
    res = {"group": group, "engine": "verus", "status": None, "functions": {}, "diags": [],
           "meta": None, "wall_s": 0.0, "smt_ms": 0, "cmd": None}
    t0 = time.time()
    try:
        text, linemap, meta = extract.extract(repo, tpath)
    except extract.AnchorLost as e:
        res["status"] = "undecided"
        res["reason"] = "anchor-lost: %s" % e
        res["wall_s"] = time.time() - t0
        return res
    open(out, "w").write(text)
    res["meta"] = meta
    cmd = ["verus", out, "--error-format=json", "--output-json", "--time-expanded",
           "--multiple-errors", "50", "--triggers-mode", "silent", "--num-threads", "8",
           # default per-function resource limit 60 (~6x the Verus default): every function of the
           # unchanged tree stays below a third of it, so solver jitter cannot turn a pass into
           # an UNDECIDED; functions with their own #[verifier::rlimit] keep theirs
           "--rlimit", "60"]
    if seed is not None:
        cmd += ["--smt-option", "smt.random_seed=%d" % seed]
    if extra_args:
        cmd += extra_args
    res["cmd"] = " ".join(cmd)
    p, text, linemap = _run_with_autofix(cmd, out, text, linemap, meta, repo, tpath)
    res["wall_s"] = time.time() - t0
    # diagnostics (stderr, one JSON object per line)
    regions = meta["fn_regions"]

    def fn_of(line):
        for (ident, a, b) in regions:
            if a <= line <= b:
                return ident
        return None

    for ln in p.stderr.splitlines():
        ln = ln.strip()
        if not ln.startswith("{"):
            continue
        try:
            d = json.loads(ln)
        except ValueError:
            continue
        if d.get("level") not in ("error",):
            continue
        msg = d.get("message", "")
        kind = classify(msg)
        if kind == "noise":
            continue
        spans = [s for s in d.get("spans", []) if s.get("is_primary")] or d.get("spans", [])
        gl = spans[0]["line_start"] if spans else None
        allspans = d.get("spans", [])
        origin = linemap[gl - 1] if gl and 0 < gl <= len(linemap) else (None, None)
        # function the diagnostic belongs to: any span inside a function region
        fn = None
        # the primary span first: for a failed precondition that is the CALL SITE (the function
        # whose obligation failed), the secondary span is the callee's clause
        for s in sorted(allspans, key=lambda x: 0 if x.get("is_primary") else 1):
            fn = fn or fn_of(s["line_start"])
        code_span = None
        for s in allspans:
            o = linemap[s["line_start"] - 1] if 0 < s["line_start"] <= len(linemap) else (None, None)
            if o[0] and not o[0].endswith(".vt") and "/prelude/" not in o[0]:
                code_span = {"file": o[0], "line": o[1], "text": (s.get("text") or [{}])[0].get("text", "").strip()}
        res["diags"].append({
            "message": msg, "kind": kind, "gen_line": gl,
            "origin_file": origin[0], "origin_line": origin[1],
            "function": fn, "code_span": code_span,
            "clause": (spans[0].get("text") or [{}])[0].get("text", "").strip() if spans else "",
            "rendered": d.get("rendered", "")[:4000],
        })
    # stdout JSON
    js = None
    try:
        start = p.stdout.index("{")
        js = json.loads(p.stdout[start:])
    except Exception:
        js = None
    if js:
        vr = js.get("verification-results", {})
        res["verified"] = vr.get("verified", 0)
        res["errors"] = vr.get("errors", 0)
        smt = js.get("times-ms", {}).get("smt", {})
        res["smt_ms"] = smt.get("smt-run", 0)
        for m in smt.get("smt-run-module-times", []):
            for f in m.get("function-breakdown", []):
                name = f["function"].split("::", 1)[1] if "::" in f["function"] else f["function"]
                cur = res["functions"].get(name)
                ent = {"success": bool(f["success"]), "ms": f["time"], "rlimit": f["rlimit"], "mode": f.get("mode:")}
                if cur:  # several queries for one function (e.g. recommends): all must succeed
                    ent["success"] = ent["success"] and cur["success"]
                    ent["ms"] += cur["ms"]
                res["functions"][name] = ent
    kinds = set(d["kind"] for d in res["diags"])
    if "tool" in kinds or js is None or (js and js["verification-results"].get("encountered-vir-error")):
        res["status"] = "undecided"
        tool = [d["message"] for d in res["diags"] if d["kind"] == "tool"]
        res["reason"] = "verus rejected the extracted text: " + ("; ".join(tool)[:600] if tool else p.stderr[-600:])
    elif "semantic" in kinds:
        # a completed query produced a counterexample; a resource-limit message next to it
        # (same or another function) does not take that verdict back
        res["status"] = "failed"
    elif "rlimit" in kinds:
        res["status"] = "undecided"
        res["reason"] = "solver resource limit"
    elif js and not js["verification-results"].get("success"):
        res["status"] = "failed"
    else:
        res["status"] = "ok"
    if res["status"] == "ok":
        vac = _vacuity(group, repo, tpath, cmd)
        res["vacuity"] = vac
        if vac["vacuous"] or vac.get("error"):
            res["status"] = "undecided"
            res["reason"] = ("vacuous precondition (an `assert(false)` placed behind `requires` verified): %s" % ", ".join(vac["vacuous"])) if vac["vacuous"] \
                else "vacuity probe run failed: %s" % vac["error"]
    return res


def _vacuity(group, repo, tpath, cmd):
    """Reachability check behind every precondition, on every run: the group is extracted once
    more with `proof { assert(false); }` at the start of the body of each verified function that
    has a `requires`; each of these assertions must FAIL.  One that verifies means the
    precondition is contradictory and everything proved under it is vacuous."""
    out = os.path.join(WORK, group + "_vacuity.rs")
    try:
        text, linemap, meta = extract.extract(repo, tpath, vacuity=True)
    except extract.AnchorLost as e:
        return {"probed": 0, "vacuous": [], "error": "anchor-lost: %s" % e}
    probed = meta["probed"]
    if not probed:
        return {"probed": 0, "vacuous": []}
    open(out, "w").write(text)
    c2 = [out if a.endswith(group + ".rs") else a for a in cmd]
    p, text, linemap = _run_with_autofix(c2, out, text, linemap, meta, repo, tpath)
    try:
        js = json.loads(p.stdout[p.stdout.index("{"):])
    except Exception:
        js = None
    if js is None or js.get("verification-results", {}).get("encountered-vir-error") or "verification-results" not in js:
        return {"probed": len(probed), "vacuous": [], "error": "verus did not verify the probe file: " + p.stderr[-300:]}
    probe_lines = set(i + 1 for i, l in enumerate(text.split("\n")) if "VACUITY-PROBE" in l)
    failed_at = set()
    for ln in p.stderr.splitlines():
        ln = ln.strip()
        if not ln.startswith("{"):
            continue
        try:
            d = json.loads(ln)
        except ValueError:
            continue
        if d.get("level") == "error" and "assertion failed" in d.get("message", ""):
            for sp in d.get("spans", []):
                if sp["line_start"] in probe_lines:
                    failed_at.add(sp["line_start"])
    regions = meta["fn_regions"]
    vacuous = []
    for (ident, a, b) in regions:
        if ident in probed:
            mine = [l for l in probe_lines if a <= l <= b]
            if mine and not any(l in failed_at for l in mine):
                vacuous.append(ident)
    if len(failed_at) == 0 and probed and "verification-results" not in p.stdout:
        return {"probed": len(probed), "vacuous": [], "error": "no probe failed (verus did not run?): " + p.stderr[-300:]}
    return {"probed": len(probed), "vacuous": vacuous}


if __name__ == "__main__":
    r = run_group(sys.argv[1], sys.argv[2] if len(sys.argv) > 2 else "/repo")
    r2 = dict(r)
    r2["meta"] = None
    for d in r2["diags"]:
        d["rendered"] = d["rendered"][:300]
    print(json.dumps(r2, indent=1))
