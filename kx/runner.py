#!/usr/bin/env python3
"""Engine K: run Kani harness modules of /verif/kani against a scratch copy of /repo.

The scratch copy is /repo's working tree, byte for byte, plus one line block
appended at the END of each anchored source file:

    #[cfg(kani)]
    #[path = "/verif/kani/<file>_kani.rs"]
    mod vk;

(child module => sees private items; `cfg(kani)` is set only by the Kani compiler.)
Harness metadata lives next to each harness as a comment:

    // @harness name=<fn> kind=Pc|Bk tier=quick|thorough props=C01,C02 bound="..." desc="..."
"""
import json
import os
import re
import shutil
import subprocess
import sys
import time

HERE = os.path.dirname(os.path.abspath(__file__))
VERIF = os.path.dirname(HERE)
KDIR = os.path.join(VERIF, "kani")
WORK = os.path.join(VERIF, ".work", "kani")
TARGET = os.path.join(VERIF, ".work", "kani-target")

META_RE = re.compile(r"^\s*//\s*@harness\s+(.*)$")


def parse_meta(line):
    d = {}
    for m in re.finditer(r'(\w+)=("([^"]*)"|\S+)', line):
        d[m.group(1)] = m.group(3) if m.group(3) is not None else m.group(2)
    return d


def registry():
    """all harnesses declared in /verif/kani/*_kani.rs"""
    out = []
    for fn in sorted(os.listdir(KDIR)):
        if not fn.endswith("_kani.rs"):
            continue
        src_rel = "src/internal/%s.rs" % fn[:-len("_kani.rs")]
        for ln in open(os.path.join(KDIR, fn)):
            m = META_RE.match(ln)
            if m:
                d = parse_meta(m.group(1))
                d["file"] = fn
                d["src"] = src_rel
                d["props"] = d.get("props", "").split(",")
                out.append(d)
    return out


def prepare(repo="/repo", tag="s", files=None):
    """files: harness module files to attach (None = all).  Only the modules a check needs are
    attached, so a harness of another property that no longer compiles cannot disturb it."""
    dst = os.path.join(WORK, tag)
    if os.path.exists(dst):
        shutil.rmtree(dst)
    os.makedirs(dst)
    subprocess.run(["rsync", "-a", "--exclude", "target", "--exclude", ".git", repo.rstrip("/") + "/", dst + "/"], check=True)
    missing = []
    for fn in sorted(os.listdir(KDIR)):
        if not fn.endswith("_kani.rs"):
            continue
        if files is not None and fn not in files:
            continue
        rel = "src/internal/%s.rs" % fn[:-len("_kani.rs")]
        p = os.path.join(dst, rel)
        if not os.path.exists(p):
            missing.append(rel)
            continue
        with open(p, "a") as f:
            f.write('\n#[cfg(kani)]\n#[path = "%s"]\nmod vk;\n' % os.path.join(KDIR, fn))
    # contracts spliced as attributes (closed list, see kani/contracts.json)
    cj = os.path.join(KDIR, "contracts.json")
    lost = []
    if os.path.exists(cj):
        for c in json.load(open(cj)):
            if files is not None and c.get("harness_file") not in files:
                continue
            p = os.path.join(dst, c["file"])
            s = open(p).read()
            m = re.search(c["anchor"], s)
            if not m:
                lost.append("%s: %s" % (c["file"], c["anchor"]))
                continue
            s = s[:m.start()] + c["attrs"] + s[m.start():]
            open(p, "w").write(s)
    lock = os.path.join(repo, "Cargo.lock")
    if not os.path.exists(lock):
        lock = "/repo/Cargo.lock"
    shutil.copy(lock, os.path.join(dst, "Cargo.lock"))
    return dst, missing, lost


def gen_language_bogus(dst):
    """BOGUS[i] = "<tag of LANGUAGES[i]>-QQ", generated from the scratch copy's table"""
    p = os.path.join(dst, "src/internal/language.rs")
    out = os.path.join(dst, "gen_language_bogus.rs")
    tags = []
    if os.path.exists(p):
        s = open(p).read()
        a = s.find("const LANGUAGES")
        b = s.find("\n];", a)
        if a >= 0 and b >= 0:
            body = s[a:b]
            # top-level entries: `(0x01, "ar", &[` possibly spread over lines
            for m in re.finditer(r"\(\s*0x[0-9a-fA-F]+,\s*\"([A-Za-z]+)\",\s*&\[", body):
                tags.append(m.group(1))
    with open(out, "w") as f:
        f.write("pub const BOGUS: &[&str] = &[%s];\n" % ", ".join('"%s-QQ"' % t for t in tags))


def cleanup(dst):
    shutil.rmtree(dst, ignore_errors=True)


RESULT_RE = re.compile(r"^Checking harness (\S+?)\.\.\.", re.M)


_LOCK_DEPTH = [0]


def run(dst, harnesses, timeout_s=600, jobs=8, playback=True):
    """Kani runs share one cargo target directory (warm dependency build, 1.8 GB): two
    concurrent `cargo kani` invocations on different scratch copies would overwrite each
    other's goto binaries (seen: CBMC crashing on a half-written file).  So Kani runs are
    serialised across processes with a file lock; the Verus parts of concurrent checks still
    run in parallel."""
    import fcntl
    if _LOCK_DEPTH[0] > 0:
        return _run(dst, harnesses, timeout_s, jobs, playback)
    os.makedirs(os.path.dirname(TARGET), exist_ok=True)
    with open(TARGET + ".lock", "w") as lk:
        fcntl.flock(lk, fcntl.LOCK_EX)
        _LOCK_DEPTH[0] += 1
        try:
            return _run(dst, harnesses, timeout_s, jobs, playback)
        finally:
            _LOCK_DEPTH[0] -= 1
            fcntl.flock(lk, fcntl.LOCK_UN)


def _run(dst, harnesses, timeout_s=600, jobs=8, playback=True):
    """run the named harnesses (exact short names) -> {name: result}.
    Kani refuses --concrete-playback together with --jobs, so the parallel
    run is done without it and each FAILED harness is re-run alone with it."""
    if playback and jobs > 1 and len(harnesses) > 1:
        res = run(dst, harnesses, timeout_s, jobs, playback=False)
        for h in harnesses:
            if res[h]["status"] == "failed":
                r2 = run(dst, [h], timeout_s, 1, playback=True)
                if r2[h]["status"] == "failed":
                    res[h] = r2[h]
        return res
    if len(harnesses) == 1:
        jobs = 1
    env = dict(os.environ)
    env["CARGO_NET_OFFLINE"] = "true"
    env["CARGO_TARGET_DIR"] = TARGET
    cmd = ["cargo", "kani", "-p", "msi", "-Z", "function-contracts", "-Z", "stubbing",
           "-Z", "unstable-options", "--harness-timeout", "%ds" % timeout_s,
           "--output-format", "terse"]
    if jobs > 1:
        cmd += ["-j", str(jobs)]
    if playback and jobs == 1:
        cmd += ["-Z", "concrete-playback", "--concrete-playback=print"]
    for h in harnesses:
        cmd += ["--harness", h]
    t0 = time.time()
    try:
        # address-space limit per process (CBMC): a harness that grows without bound ends with
        # "out of memory" (-> UNDECIDED) instead of taking the machine down
        def _limit():
            import resource
            lim = 24 * 1024 * 1024 * 1024
            resource.setrlimit(resource.RLIMIT_AS, (lim, lim))
        p = subprocess.run(cmd, cwd=dst, env=env, capture_output=True, text=True, preexec_fn=_limit,
                           timeout=timeout_s * max(1, (len(harnesses) + jobs - 1) // jobs) + 600)
        out = p.stdout + "\n" + p.stderr
        rc = p.returncode
    except subprocess.TimeoutExpired as e:
        out = (e.stdout or b"").decode(errors="replace") + "\n" + (e.stderr or b"").decode(errors="replace")
        rc = -9
    wall = time.time() - t0
    return parse_output(out, harnesses, rc, wall, " ".join(cmd))


def parse_output(out, harnesses, rc, wall, cmd):
    res = {}
    # compile failure?
    compile_err = None
    if re.search(r"^error(\[E\d+\])?:", out, re.M) and "Checking harness" not in out:
        compile_err = "\n".join(l for l in out.splitlines() if l.startswith("error") or l.strip().startswith("-->"))[:2000]
    # split per harness.  Sequential runs print "Checking harness X..." followed by
    # the result; parallel runs prefix each segment with "Thread N: ".
    blocks = {}
    cur = {}
    segs = re.split(r"^(?:Thread (\d+): )", out, flags=re.M)
    if len(segs) > 1:
        # segs = [pre, tid, text, tid, text, ...]
        for i in range(1, len(segs) - 1, 2):
            tid, text = segs[i], segs[i + 1]
            m = re.match(r"Checking harness (\S+?)\.\.\.", text)
            if m:
                cur[tid] = m.group(1).split("::")[-1]
                blocks[cur[tid]] = blocks.get(cur[tid], "") + text
            elif tid in cur:
                blocks[cur[tid]] = blocks.get(cur[tid], "") + text
    else:
        parts = re.split(r"^Checking harness ", out, flags=re.M)
        for part in parts[1:]:
            name = part.split("...", 1)[0].strip()
            blocks[name.split("::")[-1]] = part
    for h in harnesses:
        r = {"harness": h, "status": None, "failed_checks": [], "covers": [], "time_s": None, "checks": None,
             "concrete": None, "cmd": cmd}
        b = blocks.get(h)
        if compile_err:
            r["status"] = "undecided"
            r["reason"] = "harness does not compile against the current tree: " + compile_err
        elif b is None:
            r["status"] = "undecided"
            r["reason"] = "no output for harness (rc=%s)" % rc
            r["raw"] = out[-3000:]
        else:
            m = re.search(r"Verification Time: ([0-9.]+)s", b)
            if m:
                r["time_s"] = float(m.group(1))
            m = re.search(r"\*\* (\d+) of (\d+) failed", b)
            if m:
                r["checks"] = int(m.group(2))
                r["n_failed"] = int(m.group(1))
            for fm in re.finditer(r"^Failed Checks: (.*)$\n(?:^ File: \"([^\"]*)\", line (\d+), in (\S+))?", b, re.M):
                r["failed_checks"].append({"description": fm.group(1), "file": fm.group(2), "line": fm.group(3), "function": fm.group(4)})
            cm = re.search(r"\*\* (\d+) of (\d+) cover properties satisfied", b)
            if cm:
                r["covers_sat"], r["covers_total"] = int(cm.group(1)), int(cm.group(2))
            if "VERIFICATION:- SUCCESSFUL" in b:
                r["status"] = "ok"
            elif "VERIFICATION:- FAILED" in b:
                # timeouts / OOM / unwinding failures are not verdicts
                if re.search(r"CBMC timed out|out of memory|Killed|timed out", b):
                    r["status"] = "undecided"
                    r["reason"] = "solver timeout or OOM"
                elif not r["failed_checks"]:
                    # CBMC crashed or was killed (e.g. by the kernel's OOM killer): Kani prints
                    # FAILED without naming a failed check -- that is not a verdict
                    r["status"] = "undecided"
                    r["reason"] = "kani reported FAILED without any failed check (solver crashed or was killed)"
                    r["raw"] = b[-1500:]
                elif r["failed_checks"] and all("unwinding assertion" in f["description"] for f in r["failed_checks"]):
                    r["status"] = "undecided"
                    r["reason"] = "unwinding bound too small for the current code"
                else:
                    r["status"] = "failed"
            elif re.search(r"timed out|Timeout|TIMEOUT", b):
                r["status"] = "undecided"
                r["reason"] = "timeout"
            else:
                r["status"] = "undecided"
                r["reason"] = "unrecognised kani output"
                r["raw"] = b[-2000:]
            # vacuity: unsatisfied cover
            if r["status"] == "ok" and cm and int(cm.group(1)) < int(cm.group(2)):
                r["status"] = "undecided"
                r["reason"] = "vacuous: %s of %s cover points reachable" % (cm.group(1), cm.group(2))
            pm = re.search(r"Concrete playback unit test for `[^`]*`:\n```\n(.*?)```", b, re.S)
            if pm:
                r["concrete"] = pm.group(1)
                r["concrete_vals"] = [
                    [int(x) for x in re.findall(r"\d+", v)]
                    for v in re.findall(r"^\s*vec!\[([\d, ]*)\],?\s*$", pm.group(1), re.M)
                ]
        res[h] = r
    res["_wall_s"] = wall
    return res


if __name__ == "__main__":
    if sys.argv[1] == "list":
        for h in registry():
            print(h)
    else:
        reg = {h["name"]: h for h in registry()}
        files = set(reg[n]["file"] for n in sys.argv[1:] if n in reg) or None
        dst, missing, lost = prepare("/repo", "cli", files)
        print("missing", missing, "lost", lost)
        r = run(dst, sys.argv[1:], timeout_s=300)
        json.dump(r, open("/tmp/kani_cli_last.json", "w"), indent=1)
        for k, v in r.items():
            if k.startswith("_"):
                print(k, v)
            else:
                print("%-36s %-10s %6s s %5s checks  %s %s" % (k, v["status"], v.get("time_s"), v.get("checks"), (v.get("reason") or "")[:200].replace("\n", " "), [f["description"] for f in v["failed_checks"]][:3]))
        cleanup(dst)
