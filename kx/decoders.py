"""Decode Kani concrete-playback byte vectors (one vector per kani::any() call,
in call order) into a human-readable witness and the arguments of the replay
binary.  One decoder per harness that can fail with a meaningful witness."""

UNOPS = ["Neg", "BitNot", "BoolNot"]
BINOPS = ["Eq", "Ne", "Lt", "Le", "Gt", "Ge", "Add", "Sub", "Mul", "Div",
          "BitAnd", "BitOr", "BitXor", "Shl", "Shr"]


def _i32(b):
    return int.from_bytes(bytes(b), "little", signed=True)


def _u(b):
    return int.from_bytes(bytes(b), "little", signed=False)


def _scalar(vals, i):
    """any_scalar(): bool, then i32 if not null"""
    if _u(vals[i]) != 0:
        return "null", i + 1
    return str(_i32(vals[i + 1])), i + 2


def c13_unop_total(vals):
    op = UNOPS[_u(vals[0]) % 3]
    a, _ = _scalar(vals, 1)
    return {"op": op, "a": a, "replay_args": ["expr", "un", op, a]}


def c13_binop_total(vals):
    op = BINOPS[_u(vals[0]) % 15]
    a, i = _scalar(vals, 1)
    b, _ = _scalar(vals, i)
    return {"op": op, "a": a, "b": b, "replay_args": ["expr", "bin", op, a, b]}


def codepage_wiring(vals):
    cid = _i32(vals[0])
    return {"codepage_id": cid, "replay_args": ["codepage", str(cid)]}


def decode(harness, vals):
    f = globals().get(harness)
    if f is None:
        return {"raw_concrete_vals": vals}
    try:
        w = f(vals)
        w["raw_concrete_vals"] = vals
        return w
    except Exception as e:  # malformed playback: keep the raw values
        return {"raw_concrete_vals": vals, "decode_error": str(e)}
