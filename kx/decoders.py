"""Decode Kani concrete-playback byte vectors (one vector per kani::any() call,
in call order) into a human-readable witness and the arguments of the replay
binary.  One decoder per harness that can fail with a meaningful witness."""

UNOPS = ["Neg", "BitNot", "BoolNot"]
BINOPS = ["Eq", "Ne", "Lt", "Le", "Gt", "Ge", "Add", "Sub", "Mul", "Div",
          "BitAnd", "BitOr", "BitXor", "Shl", "Shr"]


def _i32(b):
    return int.from_bytes(bytes(b), "little", signed=True)


def _u(b):
    return int.from_bytes(bytes(b), "little", signed=False)


def _scalar(vals, i):
    """any_scalar(): bool, then i32 if not null"""
    if _u(vals[i]) != 0:
        return "null", i + 1
    return str(_i32(vals[i + 1])), i + 2


def c13_unop_total(vals):
    op = UNOPS[_u(vals[0]) % 3]
    a, _ = _scalar(vals, 1)
    return {"op": op, "a": a, "replay_args": ["expr", "un", op, a]}


def c13_binop_total(vals):
    op = BINOPS[_u(vals[0]) % 15]
    a, i = _scalar(vals, 1)
    b, _ = _scalar(vals, i)
    return {"op": op, "a": a, "b": b, "replay_args": ["expr", "bin", op, a, b]}


def codepage_wiring(vals):
    cid = _i32(vals[0])
    return {"codepage_id": cid, "replay_args": ["codepage", str(cid)]}


def c13_logic_ops(vals):
    a, i = _scalar(vals, 0)
    b, _ = _scalar(vals, i)
    return {"a": a, "b": b, "replay_args": ["logic", a, b]}


def lang_tag_matches_table(vals):
    code = _u(vals[0])
    return {"code": code, "replay_args": ["lang", "code", str(code)]}


def lang_unknown_is_und(vals):
    return lang_tag_matches_table(vals)


# harnesses over fixed tags carry no symbolic input: the witness is the list of tags itself,
# replayed one by one (the first that misbehaves is reported)
FIXED_TAGS = {
    "lang_from_tag_en": [("bogus", "en-QQ", 9), ("tag", "en-US", 1033), ("tag", "en", 9)],
    "lang_from_tag_fr": [("bogus", "fr-QQ", 12), ("tag", "fr-CA", 3084)],
    "lang_from_tag_unknown": [("tag", "qq", 0), ("tag", "qq-US", 0)],
    "lang_from_tag_prefix": [("tag", "arn", 0x7a), ("tag", "enx", 0)],
    "lang_from_tag_ar_de": [("bogus", "ar-QQ", 1), ("bogus", "de-QQ", 7), ("tag", "de-DE", 1031)],
    "lang_from_tag_es_zh_ja": [("bogus", "es-QQ", 10), ("bogus", "zh-QQ", 4), ("tag", "ja-JP", 1041)],
}


FIXED_NAMES = {
    "streamname_fixed_a": ["a b", "ab c", "a"],
    "streamname_fixed_b": ["abc", "a.b_c", "\u00e9a", " ab"],
}


def fixed_tag_replays(harness):
    if harness in FIXED_NAMES:
        return [["stream", n] for n in FIXED_NAMES[harness]]
    return [["lang", k, t, str(v)] for (k, t, v) in FIXED_TAGS.get(harness, [])]


def decode(harness, vals):
    if harness in FIXED_TAGS or harness in FIXED_NAMES:
        return {"fixed_inputs": FIXED_TAGS.get(harness) or FIXED_NAMES.get(harness), "replay_args_list": fixed_tag_replays(harness)}
    f = globals().get(harness)
    if f is None:
        return {"raw_concrete_vals": vals}
    try:
        w = f(vals)
        w["raw_concrete_vals"] = vals
        return w
    except Exception as e:  # malformed playback: keep the raw values
        return {"raw_concrete_vals": vals, "decode_error": str(e)}
